(* C01 — JSON round-trip is lossless for the whole Swagger 2.0 vocabulary.
   Model: Codec/Codec.v ([norm] = decode then encode) over Gen_Tables.v, regenerated from /repo. *)
From Coq Require Import List String Bool ZArith.
Local Open Scope Z_scope.
From Coq Require Import Sorting.Sorted.
From Spec Require Import Base.Json Codec.Types Codec.Gen_Tables Codec.Codec Codec.CodecFacts Codec.PayloadFacts Codec.TypedFacts.
Import ListNotations.
Local Open Scope string_scope.

(* The full statement.  [json_value_eq] compares objects as finite maps; [nf] is the normal form of
   the property.  It is stated here at full strength and NOT yet proved for every kind — see
   DESIGN.md: the generic induction over the kind tables is future work; what is proved is below. *)
Definition C01_statement (nf : string -> json -> bool) (json_value_eq : json -> json -> Prop) : Prop :=
  forall k j, nf k j = true -> exists j', norm gen_env false j (TNamed k) = ROk j' /\ json_value_eq j' j.

(* Every keyword the Swagger 2.0 meta-schema (and, for schemas, JSON-Schema draft 4) defines for a kind
   — including `$ref` and the ^x- vendor extensions where allowed — is both decodable and encodable by
   the parts the kind's UnmarshalJSON fills and its MarshalJSON concatenates.  The tables are read from
   /repo's struct tags and method bodies on every run; a dropped tag, a renamed JSON name, a part missing
   from a ConcatJSON call breaks this theorem. *)
Theorem C01_coverage : forall k, In k (map fst swagger_defs_of) -> forall kw, In kw (keywords_of k) ->
  mem_str kw (decodable gen_env k) = true /\ mem_str kw (encodable gen_env k) = true.
Proof. exact coverage. Qed.
Print Assumptions C01_coverage.

(* every kind the property lists carries vendor extensions in both directions *)
Theorem C01_extensions : ext_ok gen_env = true.
Proof. exact ext_gen. Qed.
Print Assumptions C01_extensions.

(* what a kind decodes is what it encodes (same parts on both sides) *)
Theorem C01_symmetric : symmetric_ok gen_env = true.
Proof. exact symmetric_gen. Qed.
Print Assumptions C01_symmetric.

(* the hand-transcribed codecs (Schema, Response, SecurityScheme, Paths, Responses) still have the
   part structure the model was transcribed from *)
Theorem C01_transcription : transcription_ok gen_env = true.
Proof. exact transcription_gen. Qed.
Print Assumptions C01_transcription.

(* non-vacuity: a schema with zero-valued validations, an unknown keyword, an extension with a nested
   payload and odd member names goes through unchanged (members re-ordered only) *)
Example C01_example :
  norm gen_env false (JObj [("type", JStr "object"); ("minimum", JNum 0 0); ("maxLength", JNum 0 0);
                      ("properties", JObj [("a""b\c", JObj [("type", JStr "string")])]);
                      ("x-ext", JObj [("z", JArr [JNull; JNum 0 0]); ("a", JStr "")]); ("unknownKeyword", JBool false)])
       (TNamed "Schema")
  = ROk (JObj [("type", JStr "object"); ("minimum", JNum 0 0); ("maxLength", JNum 0 0);
               ("properties", JObj [("a""b\c", JObj [("type", JStr "string")])]);
               ("x-ext", JObj [("a", JStr ""); ("z", JArr [JNull; JNum 0 0])]); ("unknownKeyword", JBool false)]).
Proof. vm_compute. reflexivity. Qed.

(* ---------- proved for every input: free-form payloads (Codec/PayloadFacts.v) ---------- *)
(* "arbitrary free-form payloads in default/example/enum/extensions": a payload in normal form - member names strictly
   increasing at every level, i.e. no duplicates, the order encoding/json writes maps in - comes back with its exact value,
   whatever its size and nesting; and every payload the codec emits is in that normal form *)
Theorem C01_payload_survives : forall j, payload_nf j -> norm gen_env false j TAny = ROk j.
Proof. exact (payload_round_trip gen_env). Qed.
Print Assumptions C01_payload_survives.

Theorem C01_emitted_payloads_are_in_normal_form : forall j, payload_nf (norm_any j).
Proof. exact norm_any_is_nf. Qed.
Print Assumptions C01_emitted_payloads_are_in_normal_form.

Example C01_payload_example :
  payload_nf (JObj [("a", JArr [JObj [("y", JBool true); ("z", JStr "s")]; JNull; JNum 0 0]); ("b", JObj [])]).
Proof.
  constructor.
  - repeat constructor.
  - intros k v [H|[H|[]]]; inversion H; subst.
    + constructor. intros x [<-|[<-|[<-|[]]]]; try constructor.
      * repeat constructor.
      * intros k v [H1|[H1|[]]]; inversion H1; subst; constructor.
    + constructor; [constructor|intros k v []].
Qed.

(* ---------- proved for every input: the scalar, slice and map field types (Codec/TypedFacts.v) ---------- *)
(* a value in normal form for its field type - a string, a boolean, a number, an integer literal in range, a non-null payload
   in normal form, a single type name or a list of at least two, a list of such values, a name-sorted map of such values -
   comes back exactly as it was, whatever its size: required, enum, consumes, produces, schemes, tags, scopes, examples, ... *)
Theorem C01_simple_field_values_survive : forall t, simple_ty t -> forall j, nf_at t j -> norm gen_env false j t = ROk j.
Proof. exact simple_nf_id_gen. Qed.
Print Assumptions C01_simple_field_values_survive.

Example C01_simple_field_example :
  nf_at (TMap (TSlice TStr)) (JObj [("a", JArr [JStr "x"; JStr ""]); ("b", JArr [])]) /\ simple_ty (TMap (TSlice TStr)).
Proof.
  split; [|repeat constructor]. cbn [nf_at]. eexists. split; [reflexivity|]. split; [repeat constructor|].
  repeat constructor; cbn [snd nf_at]; eexists; (split; [reflexivity|repeat constructor; eexists; reflexivity]).
Qed.
