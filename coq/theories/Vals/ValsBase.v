(* Hand-written support for the generated Gen_Vals.v: the value universe of callback arguments. *)
From Coq Require Import List String Bool.
From Spec Require Import Base.Json.
Import ListNotations.

(* what a clear operation hands to a callback: the previous value of the keyword *)
Inductive cval :=
| CVopt (o : option json)          (* *float64, *int64, maps: nil-able with an opaque payload *)
| CVbool (b : bool)
| CVstr (s : string)
| CVlist (l : option (list json)).

Definition is_some {A} (o : option A) : bool := match o with Some _ => true | None => false end.
Definition golen (l : option (list json)) : nat := match l with Some x => List.length x | None => 0 end.

(* JSON view of the generated records (driver glue) *)
Definition enc_bool (b : bool) : json := JBool b.
Definition dec_bool (j : json) : bool := match j with JBool b => b | _ => false end.
Definition dec_str (j : json) : string := match j with JStr s => s | _ => EmptyString end.
Definition enc_id (j : json) : json := j.
Definition dec_id (j : json) : json := j.
Definition enc_opt (o : option json) : json := match o with Some j => j | None => JNull end.
Definition dec_opt (j : json) : option json := match j with JNull => None | _ => Some j end.
Definition enc_optlist (o : option (list json)) : json := match o with Some l => JArr l | None => JNull end.
Definition dec_optlist (j : json) : option (list json) := match j with JArr l => Some l | _ => None end.
Definition enc_cval (c : cval) : json :=
  match c with
  | CVopt o => enc_opt o
  | CVbool b => JBool b
  | CVstr s => JStr s
  | CVlist l => enc_optlist l
  end.
Definition dec_cval (j : json) : cval :=
  match j with JBool b => CVbool b | JStr s => CVstr s | JArr l => CVlist (Some l) | _ => CVopt (dec_opt j) end.
