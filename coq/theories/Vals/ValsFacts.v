(* Facts about the validation accessors.  Everything here is proved about Gen_Vals.v, which the
   translator regenerates from /repo on every run: a change in validations.go / schema.go /
   parameter.go / header.go / items.go changes the definitions these proofs are checked against. *)
From Coq Require Import List String Bool Arith Lia Permutation.
From Spec Require Import Base.Json Vals.ValsBase Vals.Gen_Vals.
Import ListNotations.
Local Open Scope bool_scope.

(* ---------- the vocabulary of the statement (hand-written: it is the specification) ---------- *)
Inductive kw :=
| Kmaximum | KexclusiveMaximum | Kminimum | KexclusiveMinimum | KmultipleOf
| KmaxLength | KminLength | Kpattern
| KmaxItems | KminItems | KuniqueItems
| Kenum
| KmaxProperties | KminProperties | KpatternProperties.

Definition all_kw : list kw :=
  [Kmaximum; KexclusiveMaximum; Kminimum; KexclusiveMinimum; KmultipleOf; KmaxLength; KminLength; Kpattern;
   KmaxItems; KminItems; KuniqueItems; Kenum; KmaxProperties; KminProperties; KpatternProperties].

Inductive family := FNumber | FString | FArray | FObject | FOther.

Definition fam (k : kw) : family :=
  match k with
  | Kmaximum | KexclusiveMaximum | Kminimum | KexclusiveMinimum | KmultipleOf => FNumber
  | KmaxLength | KminLength | Kpattern => FString
  | KmaxItems | KminItems | KuniqueItems => FArray
  | KmaxProperties | KminProperties | KpatternProperties => FObject
  | Kenum => FOther
  end.

Definition family_eqb (a b : family) : bool :=
  match a, b with
  | FNumber, FNumber | FString, FString | FArray, FArray | FObject, FObject | FOther, FOther => true
  | _, _ => false
  end.

Definition kw_name (k : kw) : string :=
  match k with
  | Kmaximum => "maximum" | KexclusiveMaximum => "exclusiveMaximum" | Kminimum => "minimum"
  | KexclusiveMinimum => "exclusiveMinimum" | KmultipleOf => "multipleOf"
  | KmaxLength => "maxLength" | KminLength => "minLength" | Kpattern => "pattern"
  | KmaxItems => "maxItems" | KminItems => "minItems" | KuniqueItems => "uniqueItems"
  | Kenum => "enum"
  | KmaxProperties => "maxProperties" | KminProperties => "minProperties"
  | KpatternProperties => "patternProperties"
  end%string.

(* the value a carrier holds for a keyword, in the universe callbacks receive *)
Definition cv_field (c : CommonValidations) (k : kw) : cval :=
  match k with
  | Kmaximum => CVopt (CommonValidations_Maximum c)
  | KexclusiveMaximum => CVbool (CommonValidations_ExclusiveMaximum c)
  | Kminimum => CVopt (CommonValidations_Minimum c)
  | KexclusiveMinimum => CVbool (CommonValidations_ExclusiveMinimum c)
  | KmultipleOf => CVopt (CommonValidations_MultipleOf c)
  | KmaxLength => CVopt (CommonValidations_MaxLength c)
  | KminLength => CVopt (CommonValidations_MinLength c)
  | Kpattern => CVstr (CommonValidations_Pattern c)
  | KmaxItems => CVopt (CommonValidations_MaxItems c)
  | KminItems => CVopt (CommonValidations_MinItems c)
  | KuniqueItems => CVbool (CommonValidations_UniqueItems c)
  | Kenum => CVlist (CommonValidations_Enum c)
  | KmaxProperties | KminProperties | KpatternProperties => CVopt None
  end.

Definition sv_field (v : SchemaValidations) (k : kw) : cval :=
  match k with
  | KmaxProperties => CVopt (SchemaValidations_MaxProperties v)
  | KminProperties => CVopt (SchemaValidations_MinProperties v)
  | KpatternProperties => CVopt (SchemaValidations_PatternProperties v)
  | _ => cv_field (SchemaValidations_CommonValidations v) k
  end.

Definition is_zero (c : cval) : bool :=
  match c with
  | CVopt o => negb (is_some o)
  | CVbool b => negb b
  | CVstr s => String.eqb s ""
  | CVlist l => negb (is_some l)
  end.

Definition kws_of (f : family) : list kw := filter (fun k => family_eqb (fam k) f) all_kw.

(* what one callback must have been told: every non-zero keyword of the family with its old value *)
Definition expected_cv (f : family) (c : CommonValidations) : list (string * cval) :=
  map (fun k => (kw_name k, cv_field c k)) (filter (fun k => negb (is_zero (cv_field c k))) (kws_of f)).
Definition expected_sv (f : family) (v : SchemaValidations) : list (string * cval) :=
  map (fun k => (kw_name k, sv_field v k)) (filter (fun k => negb (is_zero (sv_field v k))) (kws_of f)).

Definition calls_of (i : nat) (calls : list (nat * string * cval)) : list (string * cval) :=
  map (fun e => (snd (fst e), snd e)) (filter (fun e => Nat.eqb (fst (fst e)) i) calls).

(* a validation set restricted to what a simple-schema carrier can hold *)
Definition restrict_common (v : SchemaValidations) : SchemaValidations :=
  Build_SchemaValidations (SchemaValidations_CommonValidations v) None None None.

(* ---------- the callback dispatcher ---------- *)
Lemma calls_of_app i a b : calls_of i (a ++ b) = calls_of i a ++ calls_of i b.
Proof. unfold calls_of. rewrite filter_app, map_app. reflexivity. Qed.

Definition one_cb (done : list clearedValidation) (cb : nat) : list (nat * string * cval) :=
  flat_map (fun cl => [(cb, clearedValidation_Validation cl, clearedValidation_Value cl)]) done.

Lemma calls_of_one done i cb :
  calls_of i (one_cb done cb)
  = if Nat.eqb cb i then map (fun cl => (clearedValidation_Validation cl, clearedValidation_Value cl)) done else [].
Proof.
  unfold calls_of, one_cb. induction done as [|cl done IH]; simpl.
  - destruct (Nat.eqb cb i); reflexivity.
  - destruct (Nat.eqb cb i) eqn:E; simpl; rewrite IH; reflexivity.
Qed.

Lemma calls_of_apply_out (done : list clearedValidation) (i : nat) :
  forall n s, (i < s \/ s + n <= i) -> calls_of i (flat_map (one_cb done) (seq s n)) = [].
Proof.
  induction n as [|n IH]; intros s H; cbn [seq flat_map]; [reflexivity|].
  rewrite calls_of_app, calls_of_one, (IH (S s)) by lia.
  replace (Nat.eqb s i) with false by (symmetry; apply Nat.eqb_neq; lia). reflexivity.
Qed.

Lemma calls_of_apply_gen (done : list clearedValidation) (i : nat) :
  forall n s, s <= i < s + n ->
    calls_of i (flat_map (one_cb done) (seq s n))
    = map (fun cl => (clearedValidation_Validation cl, clearedValidation_Value cl)) done.
Proof.
  induction n as [|n IH]; intros s H; [lia|]. cbn [seq flat_map].
  rewrite calls_of_app, calls_of_one.
  destruct (Nat.eqb s i) eqn:Es.
  - apply Nat.eqb_eq in Es. subst s. rewrite calls_of_apply_out by lia. apply app_nil_r.
  - apply Nat.eqb_neq in Es. rewrite (IH (S s)) by lia. reflexivity.
Qed.

Lemma calls_of_apply (done : list clearedValidation) (n i : nat) :
  i < n ->
  calls_of i (clearedValidations_apply done n)
  = map (fun cl => (clearedValidation_Validation cl, clearedValidation_Value cl)) done.
Proof.
  intros Hi. unfold clearedValidations_apply.
  change (calls_of i (flat_map (one_cb done) (seq 0 n)) = map (fun cl => (clearedValidation_Validation cl, clearedValidation_Value cl)) done).
  apply calls_of_apply_gen. lia.
Qed.

Lemma one_cb_length done cb : List.length (one_cb done cb) = List.length done.
Proof. unfold one_cb. induction done as [|cl done IH]; simpl; [reflexivity|]. rewrite IH. reflexivity. Qed.

Lemma calls_of_apply_total (done : list clearedValidation) (n : nat) :
  List.length (clearedValidations_apply done n) = n * List.length done.
Proof.
  unfold clearedValidations_apply.
  change (List.length (flat_map (one_cb done) (seq 0 n)) = n * List.length done).
  generalize 0 as s.
  induction n as [|n IH]; intros s; cbn [seq flat_map]; [reflexivity|].
  rewrite app_length, IH, one_cb_length. reflexivity.
Qed.

(* ---------- lens laws of the accessors ---------- *)
Lemma cv_set_get c v :
  CommonValidations_Validations (CommonValidations_SetValidations c v) = restrict_common v.
Proof. destruct v as [cv pp mx mn]; destruct cv; reflexivity. Qed.

Lemma cv_get_set c : CommonValidations_SetValidations c (CommonValidations_Validations c) = c.
Proof. destruct c; reflexivity. Qed.

Lemma cv_set_set c v v' :
  CommonValidations_SetValidations (CommonValidations_SetValidations c v) v' = CommonValidations_SetValidations c v'.
Proof. destruct c; reflexivity. Qed.

Lemma sv_set_get s v : SchemaValidations_Validations (SchemaValidations_SetValidations s v) = v.
Proof. destruct v as [cv pp mx mn]; destruct cv; reflexivity. Qed.

Lemma sv_get_set s : SchemaValidations_SetValidations s (SchemaValidations_Validations s) = s.
Proof. destruct s as [cv pp mx mn]; destruct cv; reflexivity. Qed.

Lemma sv_set_set s v v' :
  SchemaValidations_SetValidations (SchemaValidations_SetValidations s v) v' = SchemaValidations_SetValidations s v'.
Proof. destruct s as [cv pp mx mn]; destruct cv; reflexivity. Qed.

Lemma schema_set_get s v : Schema_Validations (Schema_SetValidations s v) = v.
Proof. destruct v as [cv pp mx mn]; destruct cv; reflexivity. Qed.

Lemma schema_get_set s : Schema_SetValidations s (Schema_Validations s) = s.
Proof. destruct s as [ve sp ssp ep]; destruct sp; reflexivity. Qed.

Lemma schema_set_set s v v' :
  Schema_SetValidations (Schema_SetValidations s v) v' = Schema_SetValidations s v'.
Proof. destruct s as [ve sp ssp ep]; destruct sp; reflexivity. Qed.

Lemma schema_with_is_set s v : Schema_WithValidations s v = Schema_SetValidations s v.
Proof. reflexivity. Qed.

(* parts of a Schema outside SchemaProps are never touched *)
Lemma schema_set_frame s v :
  Schema_VendorExtensible (Schema_SetValidations s v) = Schema_VendorExtensible s
  /\ Schema_SwaggerSchemaProps (Schema_SetValidations s v) = Schema_SwaggerSchemaProps s
  /\ Schema_ExtraProps (Schema_SetValidations s v) = Schema_ExtraProps s.
Proof. destruct s; repeat split; reflexivity. Qed.

(* the three simple-schema carriers: WithValidations writes the embedded set and nothing else *)
Lemma parameter_with p c :
  Parameter_WithValidations p c
  = set_Parameter_CommonValidations p (CommonValidations_SetValidations (Parameter_CommonValidations p) (Build_SchemaValidations c None None None)).
Proof. reflexivity. Qed.
Lemma parameter_with_get p c :
  SchemaValidations_CommonValidations (CommonValidations_Validations (Parameter_CommonValidations (Parameter_WithValidations p c))) = c.
Proof. destruct p; destruct c; reflexivity. Qed.
Lemma parameter_with_frame p c :
  set_Parameter_CommonValidations (Parameter_WithValidations p c) (Parameter_CommonValidations p) = p.
Proof. destruct p; reflexivity. Qed.
Lemma header_with_get h c :
  SchemaValidations_CommonValidations (CommonValidations_Validations (Header_CommonValidations (Header_WithValidations h c))) = c.
Proof. destruct h; destruct c; reflexivity. Qed.
Lemma header_with_frame h c :
  set_Header_CommonValidations (Header_WithValidations h c) (Header_CommonValidations h) = h.
Proof. destruct h; reflexivity. Qed.
Lemma items_with_get i c :
  SchemaValidations_CommonValidations (CommonValidations_Validations (Items_CommonValidations (Items_WithValidations i c))) = c.
Proof. destruct i; destruct c; reflexivity. Qed.
Lemma items_with_frame i c :
  set_Items_CommonValidations (Items_WithValidations i c) (Items_CommonValidations i) = i.
Proof. destruct i; reflexivity. Qed.

(* ---------- clear operations ---------- *)
Definition clear_cv (f : family) (c : CommonValidations) (n : nat) : CommonValidations * list (nat * string * cval) :=
  match f with
  | FNumber => CommonValidations_ClearNumberValidations c n
  | FString => CommonValidations_ClearStringValidations c n
  | FArray => CommonValidations_ClearArrayValidations c n
  | _ => (c, [])
  end.

Definition has_cv (f : family) (c : CommonValidations) : bool :=
  match f with
  | FNumber => CommonValidations_HasNumberValidations c
  | FString => CommonValidations_HasStringValidations c
  | FArray => CommonValidations_HasArrayValidations c
  | _ => false
  end.

Definition cv_family (f : family) : bool :=
  match f with FNumber | FString | FArray => true | _ => false end.

Record clear_spec_cv (f : family) (c c' : CommonValidations) (n : nat) (calls : list (nat * string * cval)) : Prop := {
  cs_cleared : forall k, fam k = f -> is_zero (cv_field c' k) = true;
  cs_others  : forall k, fam k <> f -> cv_field c' k = cv_field c k;
  cs_has     : has_cv f c' = false;
  cs_calls   : forall i, i < n ->
                 (forall e, In e (calls_of i calls) <-> In e (expected_cv f c))
                 /\ NoDup (map fst (calls_of i calls));
  cs_total   : List.length calls = n * List.length (expected_cv f c)
}.

Ltac case_fields :=
  repeat match goal with
         | |- context [is_some ?x] => is_var x; destruct x
         | |- context [String.eqb ?x ""] => is_var x; destruct x
         | |- context [if ?b then _ else _] => is_var b; destruct b
         end.

Ltac nodup_names :=
  repeat (constructor; [cbn; intuition discriminate|]); constructor.

Ltac clear_case Hi :=
  split;
  [ let k := fresh "k" in let Hk := fresh "Hk" in intros k Hk; destruct k; try discriminate Hk; reflexivity
  | let k := fresh "k" in let Hk := fresh "Hk" in intros k Hk; destruct k; try reflexivity; exfalso; apply Hk; reflexivity
  | reflexivity
  | let i := fresh "i" in intros i Hi; cbn -[clearedValidations_apply calls_of];
    rewrite calls_of_apply by exact Hi; cbn; split; [intros e; cbn; tauto | nodup_names]
  | cbn -[clearedValidations_apply Nat.mul]; rewrite calls_of_apply_total; reflexivity ].

Lemma clear_cv_ok f c n : cv_family f = true ->
  clear_spec_cv f c (fst (clear_cv f c n)) n (snd (clear_cv f c n)).
Proof.
  intros Hf. destruct c as [mx emx mn emn mxl mnl pat mxi mni uq mo en].
  destruct f; try discriminate; clear Hf.
  - destruct mx, emx, mn, emn, mo; clear_case Hi.
  - destruct mxl, mnl, pat; clear_case Hi.
  - destruct mxi, mni, uq; clear_case Hi.
Qed.

(* ---------- the schema-validation carrier: all four families ---------- *)
Definition clear_sv (f : family) (v : SchemaValidations) (n : nat) : SchemaValidations * list (nat * string * cval) :=
  match f with
  | FObject => SchemaValidations_ClearObjectValidations v n
  | FOther => (v, [])
  | _ => (set_SchemaValidations_CommonValidations v (fst (clear_cv f (SchemaValidations_CommonValidations v) n)),
          snd (clear_cv f (SchemaValidations_CommonValidations v) n))
  end.

Definition has_sv (f : family) (v : SchemaValidations) : bool :=
  match f with
  | FObject => SchemaValidations_HasObjectValidations v
  | _ => has_cv f (SchemaValidations_CommonValidations v)
  end.

Definition clear_family (f : family) : bool :=
  match f with FOther => false | _ => true end.

Record clear_spec_sv (f : family) (v v' : SchemaValidations) (n : nat) (calls : list (nat * string * cval)) : Prop := {
  ss_cleared : forall k, fam k = f -> is_zero (sv_field v' k) = true;
  ss_others  : forall k, fam k <> f -> sv_field v' k = sv_field v k;
  ss_has     : has_sv f v' = false;
  ss_calls   : forall i, i < n ->
                 (forall e, In e (calls_of i calls) <-> In e (expected_sv f v))
                 /\ NoDup (map fst (calls_of i calls));
  ss_total   : List.length calls = n * List.length (expected_sv f v)
}.

Lemma expected_sv_cv f v : cv_family f = true ->
  expected_sv f v = expected_cv f (SchemaValidations_CommonValidations v).
Proof.
  intros Hf. unfold expected_sv, expected_cv.
  assert (E : forall k, In k (kws_of f) -> sv_field v k = cv_field (SchemaValidations_CommonValidations v) k).
  { intros k Hk. apply filter_In in Hk. destruct Hk as [_ Hk].
    destruct k; try reflexivity; destruct f; discriminate. }
  rewrite (filter_ext_in _ (fun k => negb (is_zero (cv_field (SchemaValidations_CommonValidations v) k)))).
  - apply map_ext_in. intros k Hk. apply filter_In in Hk. rewrite (E k (proj1 Hk)). reflexivity.
  - intros k Hk. rewrite (E k Hk). reflexivity.
Qed.

Lemma clear_sv_ok f v n : clear_family f = true ->
  clear_spec_sv f v (fst (clear_sv f v n)) n (snd (clear_sv f v n)).
Proof.
  intros Hf. destruct (cv_family f) eqn:Hcv.
  - pose proof (clear_cv_ok f (SchemaValidations_CommonValidations v) n Hcv) as [H1 H2 H3 H4 H5].
    destruct v as [cv pp mxp mnp].
    assert (Hcl : clear_sv f (Build_SchemaValidations cv pp mxp mnp) n
                  = (Build_SchemaValidations (fst (clear_cv f cv n)) pp mxp mnp, snd (clear_cv f cv n)))
      by (destruct f; try discriminate; reflexivity).
    rewrite Hcl. cbn [fst snd SchemaValidations_CommonValidations] in *.
    split.
    + intros k Hk. specialize (H1 k Hk). destruct k; try exact H1; subst f; discriminate.
    + intros k Hk. specialize (H2 k Hk). destruct k; try exact H2; reflexivity.
    + destruct f; try discriminate; exact H3.
    + rewrite expected_sv_cv by exact Hcv. exact H4.
    + rewrite expected_sv_cv by exact Hcv. exact H5.
  - destruct f; try discriminate. clear Hf Hcv.
    destruct v as [cv pp mxp mnp]. destruct pp, mxp, mnp; clear_case Hi.
Qed.

(* records are determined by their keyword values *)
Lemma sv_ext a b : (forall k, sv_field a k = sv_field b k) -> a = b.
Proof.
  intros H. destruct a as [ca pa xa na], b as [cb pb xb nb]. destruct ca, cb.
  pose proof (H Kmaximum) as H1. pose proof (H KexclusiveMaximum) as H2. pose proof (H Kminimum) as H3.
  pose proof (H KexclusiveMinimum) as H4. pose proof (H KmultipleOf) as H5. pose proof (H KmaxLength) as H6.
  pose proof (H KminLength) as H7. pose proof (H Kpattern) as H8. pose proof (H KmaxItems) as H9.
  pose proof (H KminItems) as H10. pose proof (H KuniqueItems) as H11. pose proof (H Kenum) as H12.
  pose proof (H KmaxProperties) as H13. pose proof (H KminProperties) as H14. pose proof (H KpatternProperties) as H15.
  cbn in *. congruence.
Qed.

Lemma is_zero_eq a b : is_zero a = true -> is_zero b = true ->
  match a, b with
  | CVopt _, CVopt _ | CVbool _, CVbool _ | CVstr _, CVstr _ | CVlist _, CVlist _ => a = b
  | _, _ => True
  end.
Proof.
  destruct a as [[x|]|[|]|s|[l|]], b as [[y|]|[|]|t|[m|]]; cbn; intros Ha Hb; try discriminate; try exact I; try reflexivity.
  apply String.eqb_eq in Ha. apply String.eqb_eq in Hb. subst. reflexivity.
Qed.

Lemma family_dec (a b : family) : {a = b} + {a <> b}.
Proof. decide equality. Qed.

(* clears of different families commute on the object *)
Lemma clear_sv_commute f g v n m : clear_family f = true -> clear_family g = true -> f <> g ->
  fst (clear_sv f (fst (clear_sv g v n)) m) = fst (clear_sv g (fst (clear_sv f v m)) n).
Proof.
  intros Hf Hg Hne. apply sv_ext. intros k.
  pose proof (clear_sv_ok g v n Hg) as [G1 G2 _ _ _].
  pose proof (clear_sv_ok f v m Hf) as [F1 F2 _ _ _].
  pose proof (clear_sv_ok f (fst (clear_sv g v n)) m Hf) as [FG1 FG2 _ _ _].
  pose proof (clear_sv_ok g (fst (clear_sv f v m)) n Hg) as [GF1 GF2 _ _ _].
  destruct (family_dec (fam k) f) as [Ef|Nf].
  - (* cleared by f on both sides *)
    assert (Ng : fam k <> g) by congruence.
    pose proof (FG1 k Ef) as Z1. pose proof (F1 k Ef) as Z2.
    rewrite (GF2 k Ng).
    pose proof (is_zero_eq _ _ Z1 Z2) as E.
    destruct k; cbn in *; exact E.
  - rewrite (FG2 k Nf).
    destruct (family_dec (fam k) g) as [Eg|Ng].
    + pose proof (G1 k Eg) as Z1. pose proof (GF1 k Eg) as Z2.
      pose proof (is_zero_eq _ _ Z1 Z2) as E.
      destruct k; cbn in *; exact E.
    + rewrite (G2 k Ng), (GF2 k Ng), (F2 k Nf). reflexivity.
Qed.

(* any sequence of clears that mentions a family leaves that family empty *)
Definition clear_all (l : list family) (v : SchemaValidations) : SchemaValidations :=
  fold_left (fun v f => fst (clear_sv f v 0)) l v.

Lemma clear_all_empties l : forall v k,
  (forall f, In f l -> clear_family f = true) -> In (fam k) l ->
  is_zero (sv_field (clear_all l v) k) = true.
Proof.
  induction l as [|f l IH] using rev_ind; intros v k Hall Hin; [destruct Hin|].
  unfold clear_all. rewrite fold_left_app. cbn [fold_left]. fold (clear_all l v).
  assert (Hf : clear_family f = true) by (apply Hall, in_or_app; right; left; reflexivity).
  pose proof (clear_sv_ok f (clear_all l v) 0 Hf) as [C1 C2 _ _ _].
  destruct (family_dec (fam k) f) as [E|N].
  - apply C1, E.
  - rewrite (C2 k N). apply IH.
    + intros g Hg. apply Hall, in_or_app. left. exact Hg.
    + apply in_app_or in Hin. destruct Hin as [H|[H|[]]]; [exact H|congruence].
Qed.

Lemma clear_everything_any_order l v :
  Permutation l [FNumber; FString; FArray; FObject] ->
  forall k, fam k <> FOther -> is_zero (sv_field (clear_all l v) k) = true.
Proof.
  intros Hp k Hk. apply clear_all_empties.
  - intros f Hf. apply (Permutation_in _ Hp) in Hf. cbn in Hf.
    destruct Hf as [<-|[<-|[<-|[<-|[]]]]]; reflexivity.
  - apply (Permutation_in _ (Permutation_sym Hp)). destruct k; cbn; tauto || (exfalso; apply Hk; reflexivity).
Qed.

(* the enum is in no family: no clear touches it *)
Lemma clear_keeps_enum f v n : clear_family f = true ->
  sv_field (fst (clear_sv f v n)) Kenum = sv_field v Kenum.
Proof.
  intros Hf. pose proof (clear_sv_ok f v n Hf) as [_ C2 _ _ _]. apply C2. destruct f; discriminate.
Qed.
