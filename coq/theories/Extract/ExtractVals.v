From Coq Require Import ExtrOcamlBasic ExtrOcamlString.
From Spec Require Import Extract.DriverVals.
Extraction Language OCaml.
Extraction "model_vals.ml" main_vals.
