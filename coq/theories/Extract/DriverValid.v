(* Driver for the "valid Swagger 2.0 document" model:
   {"op":"valid","kind":K,"j":doc} -> true | false   (K as in Valid.kinds; "swagger" is the root). *)
From Coq Require Import List String Ascii ZArith Bool.
From Spec Require Import Base.Json Valid.Valid Extract.DriverBase.
Import ListNotations.
Local Open Scope string_scope.

Definition run_valid (c : json) : json :=
  let op := jget_str "op" c in
  if op =? "valid" then
    match jfield "kind" c, jfield "j" c with
    | Some (JStr k), Some j =>
        match assoc k kinds with
        | Some f => JBool (f j)
        | None => jerr "unknown kind"
        end
    | _, _ => jerr "valid: kind or j missing"
    end
  else jerr "unknown op".

Definition main_valid (line : string) : string := run_line run_valid line.
