From Coq Require Import ExtrOcamlBasic ExtrOcamlString.
From Spec Require Import Extract.DriverCodec.
Extraction Language OCaml.
Extraction "model_codec.ml" main_codec.
