From Coq Require Import ExtrOcamlBasic ExtrOcamlString.
From Spec Require Import Extract.DriverValid.
Extraction Language OCaml.
Extraction "model_valid.ml" main_valid.
