(* Driver for the codec cluster (C01, C06, C07, ...): norm = decode then encode, per kind. *)
From Coq Require Import List String Ascii ZArith Bool.
From Spec Require Import Base.Json Base.Url Codec.Types Codec.Gen_Tables Codec.Codec Extract.DriverBase.
Import ListNotations.
Local Open Scope string_scope.

Definition gen_env : env := mkEnv gen_structs gen_aliases gen_marshal_parts gen_unmarshal_parts.

Definition res_json (r : res) : json :=
  match r with
  | ROk v => JObj [("ok", v)]
  | RErr => JObj [("err", JBool true)]
  | RUnsup => JObj [("unsupported", JBool true)]
  end.

Definition run_codec (c : json) : json :=
  let op := jget_str "op" c in
  if op =? "norm" then res_json (norm gen_env false (jget "j" c) (TNamed (jget_str "kind" c)))
  else if op =? "gobnorm" then res_json (norm gen_env true (jget "j" c) (TNamed (jget_str "kind" c)))
  else jerr "unknown op".

Definition main_codec (line : string) : string := run_line run_codec line.
