(* Glue shared by the per-cluster drivers: one case per line, JSON in, JSON out. *)
From Coq Require Import List String Ascii ZArith Bool.
From Spec Require Import Base.Json.
Import ListNotations.
Local Open Scope string_scope.

Definition jerr (msg : string) : json := JObj [("model_error", JStr msg)].

Definition run_line (f : json -> json) (line : string) : string :=
  match parse_json line with
  | Some c => print_json (f c)
  | None => print_json (jerr "unparsable case line")
  end.

Definition jpair (a b : json) : json := JArr [a; b].
Definition jnat (n : nat) : json := JNum (Z.of_nat n) 0.
