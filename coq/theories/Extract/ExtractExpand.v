From Coq Require Import ExtrOcamlBasic ExtrOcamlString.
From Spec Require Import Extract.DriverExpand.
Extraction Language OCaml.
Extraction "model_expand.ml" main_expand.
