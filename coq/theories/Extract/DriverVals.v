(* Driver for the validation accessors (C20): evaluates Gen_Vals.v on one case. *)
From Coq Require Import List String Ascii ZArith Bool.
From Spec Require Import Base.Json Vals.ValsBase Vals.Gen_Vals Extract.DriverBase.
Import ListNotations.
Local Open Scope string_scope.

Definition enc_calls (l : list (nat * string * cval)) : json :=
  JArr (map (fun e => JArr [jnat (fst (fst e)); JStr (snd (fst e)); enc_cval (snd e)]) l).

Definition with_calls {A} (enc : A -> json) (r : A * list (nat * string * cval)) : json :=
  JObj [("obj", enc (fst r)); ("calls", enc_calls (snd r))].

Definition run_vals (c : json) : json :=
  let op := jget_str "op" c in
  let a := jget "a" c in
  let b := jget "b" c in
  let n := Z.to_nat (jget_int "n" c) in
  let cv := CommonValidations_of_json in
  let sv := SchemaValidations_of_json in
  if op =? "cv_set" then CommonValidations_to_json (CommonValidations_SetValidations (cv a) (sv b))
  else if op =? "cv_get" then SchemaValidations_to_json (CommonValidations_Validations (cv a))
  else if op =? "cv_clear_number" then with_calls CommonValidations_to_json (CommonValidations_ClearNumberValidations (cv a) n)
  else if op =? "cv_clear_string" then with_calls CommonValidations_to_json (CommonValidations_ClearStringValidations (cv a) n)
  else if op =? "cv_clear_array" then with_calls CommonValidations_to_json (CommonValidations_ClearArrayValidations (cv a) n)
  else if op =? "cv_has" then
    JArr [JBool (CommonValidations_HasNumberValidations (cv a)); JBool (CommonValidations_HasStringValidations (cv a));
          JBool (CommonValidations_HasArrayValidations (cv a)); JBool (CommonValidations_HasEnum (cv a))]
  else if op =? "sv_set" then SchemaValidations_to_json (SchemaValidations_SetValidations (sv a) (sv b))
  else if op =? "sv_get" then SchemaValidations_to_json (SchemaValidations_Validations (sv a))
  else if op =? "sv_clear_object" then with_calls SchemaValidations_to_json (SchemaValidations_ClearObjectValidations (sv a) n)
  else if op =? "sv_has" then JBool (SchemaValidations_HasObjectValidations (sv a))
  else if op =? "schema_set" then Schema_to_json (Schema_SetValidations (Schema_of_json a) (sv b))
  else if op =? "schema_with" then Schema_to_json (Schema_WithValidations (Schema_of_json a) (sv b))
  else if op =? "schema_get" then SchemaValidations_to_json (Schema_Validations (Schema_of_json a))
  else if op =? "param_with" then Parameter_to_json (Parameter_WithValidations (Parameter_of_json a) (cv b))
  else if op =? "header_with" then Header_to_json (Header_WithValidations (Header_of_json a) (cv b))
  else if op =? "items_with" then Items_to_json (Items_WithValidations (Items_of_json a) (cv b))
  else jerr "unknown op".

Definition main_vals (line : string) : string := run_line run_vals line.
