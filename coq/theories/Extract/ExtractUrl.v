From Coq Require Import ExtrOcamlBasic ExtrOcamlString.
From Spec Require Import Extract.DriverUrl.
Extraction Language OCaml.
Extraction "model_url.ml" main_url.
