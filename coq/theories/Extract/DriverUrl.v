(* Driver for the URL cluster (C11, C12, C13 and the rebasing used by the expander). *)
From Coq Require Import List String Ascii ZArith Bool.
From Spec Require Import Base.Json Base.Url Base.Rfc3986 Extract.DriverBase.
Import ListNotations.
Local Open Scope string_scope.

Definition jchars (c : chars) : json := JStr (l2s c).
Definition pres {A} (f : A -> json) (r : presult A) : json :=
  match r with
  | POk a => f a
  | PErr => JObj [("err", JBool true)]
  | PUnsupported => JObj [("unsupported", JBool true)]
  end.

Definition ref_json (r : ref) : json :=
  JObj [("str", jchars (ref_string r));
        ("flags", JArr [JBool (has_full_url r); JBool (has_url_path_only r); JBool (has_fragment_only r);
                        JBool (has_file_scheme r); JBool (has_full_file_path r)]);
        ("canonical", JBool (is_canonical r)); ("root", JBool (is_root r));
        ("remote", jchars (remote_uri r))].

Definition run_url (c : json) : json :=
  let op := jget_str "op" c in
  let a := s2l (jget_str "a" c) in
  let b := s2l (jget_str "b" c) in
  let d := s2l (jget_str "c" c) in
  if op =? "new_ref" then pres ref_json (new_ref a)
  else if op =? "url_string" then pres (fun u => JObj [("str", jchars (print_url u))]) (parse_url_spec a)
  else if op =? "normalize_base" then pres (fun s => JObj [("str", jchars s)]) (normalize_base a b)
  else if op =? "normalize_uri" then pres (fun s => JObj [("str", jchars s)]) (normalize_uri a b)
  else if op =? "rfc_resolve" then pres (fun s => JObj [("str", jchars s)]) (rfc_resolve_str a b)
  else if op =? "denormalize" then
    match new_ref a with
    | POk r => pres (fun r' => JObj [("str", jchars (ref_string r'))]) (denormalize_ref r b d)
    | PErr => JObj [("err", JBool true)]
    | PUnsupported => JObj [("unsupported", JBool true)]
    end
  else if op =? "rebase" then
    match new_ref a, parse_url_spec b with
    | POk r, POk v => pres (fun p => JObj [("str", jchars (ref_string (fst p))); ("ok", JBool (snd p))]) (rebase r v (jget_bool "ne" c))
    | PUnsupported, _ | _, PUnsupported => JObj [("unsupported", JBool true)]
    | _, _ => JObj [("err", JBool true)]
    end
  else if op =? "clean" then JObj [("str", jchars (clean a))]
  else if op =? "dir" then JObj [("str", jchars (dir a))]
  else if op =? "join" then JObj [("str", jchars (join2 a b))]
  else jerr "unknown op".

Definition main_url (line : string) : string := run_line run_url line.
