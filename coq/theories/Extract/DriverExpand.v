(* Driver for the expander cluster: ExpandSpec and friends on in-memory documents. *)
From Coq Require Import List String Ascii ZArith Bool.
From Spec Require Import Base.Json Base.Url Codec.Types Codec.Gen_Tables Codec.Codec Expand.Expand
  Expand.ExpandSimCheck Expand.ExpandCycle Expand.ExpandElem Expand.ExpandTermG Expand.ExpandComplete Expand.ExpandSpecSim Extract.DriverBase.
Import ListNotations.
Local Open Scope string_scope.

Definition gen_env : env := mkEnv gen_structs gen_aliases gen_marshal_parts gen_unmarshal_parts.

Fixpoint count_refs (j : json) : nat :=
  match j with
  | JObj m => (fix go (m : list (string * json)) : nat :=
                 match m with
                 | [] => 0
                 | (k, v) :: r => (if String.eqb k "$ref" then 1 else 0) + count_refs v + go r
                 end) m
  | JArr l => (fix go (l : list json) : nat := match l with [] => 0 | x :: r => count_refs x + go r end) l
  | _ => 0
  end.

Definition docs_of (c : json) : list (string * json) :=
  match jfield "docs" c with Some (JObj m) => m | _ => [] end.
Definition missing_of (c : json) : list string :=
  flat_map (fun x => match x with JStr s => [s] | _ => [] end) (jget_list "missing" c).

Definition opts_of (c : json) : opts :=
  let o := jget "opts" c in mkOpts (jget_bool "skip" o) (jget_bool "cont" o) (jget_bool "abs" o).

Definition s0 : st := mkSt [] [] [] "" false.

Definition out_json (r : eres (st * json)) : json :=
  match r with
  | Done (s, j) =>
      (* the implementation's result is a typed document: what is observed is its encoding *)
      let j' := match norm gen_env false j (TNamed "Swagger") with ROk v => v | _ => j end in
      JObj [("err", JBool false); ("out", j'); ("loads", JArr (map JStr (rev (log s))))]
  | Failed sf => JObj [("err", JBool true); ("out", JNull); ("loads", JArr (map JStr (rev (log sf))))]
  | OOF => JObj [("oof", JBool true)]
  | Unsup => JObj [("unsupported", JBool true)]
  end.

Definition run_expand (c : json) : json :=
  let op := jget_str "op" c in
  let all := docs_of c in
  let served := filter (fun kv => negb (mem_str (fst kv) (missing_of c))) all in
  let root := jget_str "root" c in
  let fuel := fold_left (fun n kv => n + count_refs (snd kv)) all 0 + count_refs (jget "element" c) + 6 in
  if op =? "expand_spec" then
    match assoc root all with
    | Some d => match norm gen_env false d (TNamed "Swagger") with
                | ROk nd => out_json (expand_spec gen_env served "/" (opts_of c) root (Some (root, nd)) fuel root nd s0)
                | RErr => JObj [("err", JBool true); ("out", JNull); ("loads", JArr [])]
                | RUnsup => JObj [("unsupported", JBool true)]
                end
    | None => jerr "no root document"
    end
  else if op =? "resolve" then
    (* Resolve*WithBase: the root as typed objects, as generic JSON, or through its location only *)
    let mode := jget_str "root_mode" c in
    let rdoc := assoc root all in
    let live := if mode =? "none" then None
                else match rdoc with
                     | Some d => if mode =? "typed"
                                 then match norm gen_env false d (TNamed "Swagger") with ROk nd => Some (root, nd) | _ => Some (root, d) end
                                 else Some (root, d)
                     | None => None
                     end in
    let rroot := match live with Some _ => Some root | None => None end in
    match resolve gen_env served "/" live s0 rroot (jget_str "ref" c) root (jget_str "kind" c) with
    | Done (s, j) => JObj [("err", JBool false); ("out", j)]
    | Failed _ => JObj [("err", JBool true); ("out", JNull)]
    | OOF => JObj [("oof", JBool true)]
    | Unsup => JObj [("unsupported", JBool true)]
    end
  else if (op =? "expand_schema") || (op =? "expand_param") || (op =? "expand_response") then
    (* the single-element entry points (C10): ExpandSchemaWithBasePath / ExpandParameter / ExpandResponse against a location,
       ExpandSchema / Expand{Parameter,Response}WithRoot against a supplied root (typed or generic), and the schema expander
       with a cache pre-filled by an earlier call (the root filed under its pseudo location) *)
    let kind := if op =? "expand_schema" then "Schema" else if op =? "expand_param" then "Parameter" else "Response" in
    let entry := jget_str "entry" c in
    let o := opts_of c in
    let out_elem (r : eres (st * json)) : json :=
      match r with
      | Done (s, j) =>
          let j' := match norm gen_env false j (TNamed kind) with ROk v => v | _ => j end in
          JObj [("err", JBool false); ("out", j'); ("loads", JArr (map JStr (rev (log s))))]
      | Failed sf => JObj [("err", JBool true); ("out", JNull); ("loads", JArr (map JStr (rev (log sf))))]
      | OOF => JObj [("oof", JBool true)]
      | Unsup => JObj [("unsupported", JBool true)]
      end in
    match norm gen_env false (jget "element" c) (TNamed kind) with
    | ROk nel =>
        if entry =? "base_path" then
          if op =? "expand_schema" then out_elem (expand_schema_with_base gen_env served "/" o root None fuel root [] nel)
          else out_elem (expand_element_with_base gen_env served "/" o root None fuel root [] kind nel)
        else
          match assoc root all with
          | Some d =>
              let rootdoc := if entry =? "with_root_typed"
                             then match norm gen_env false d (TNamed "Swagger") with ROk nd => nd | _ => d end else d in
              let pseudo := jget_str "pseudo_root" c in
              if op =? "expand_schema" then out_elem (expand_schema_with_root gen_env served "/" o pseudo None fuel pseudo rootdoc [] nel)
              else out_elem (expand_element_with_root gen_env served "/" o pseudo (Some (pseudo, rootdoc)) fuel pseudo rootdoc [] kind nel)
          | None => jerr "no root document"
          end
    | RErr => JObj [("err", JBool true); ("out", JNull); ("loads", JArr [])]
    | RUnsup => JObj [("unsupported", JBool true)]
    end
  else if op =? "domain" then
    (* does this generated graph satisfy the hypotheses of the C02/C03/C04/C08/C18 theorems?  The schema graph reachable from
       the definitions of the root, with the root taken in the typed form the expander holds it in *)
    match assoc root all with
    | Some d => match norm gen_env false d (TNamed "Swagger") with
                | ROk nd =>
                    let docs' := (root, nd) :: filter (fun kv => negb (String.eqb (fst kv) root)) served in
                    let starts := match jfield "definitions" nd with Some (JObj ds) => map (fun kv => (root, snd kv)) ds | _ => [] end in
                    let nodes := collect gen_env docs' "/" 600 starts [] in
                    let o := opts_of c in
                    let ordered := topo gen_env docs' "/" 60 nodes [] in
                    (* the specification-level theorem (C02_expand_spec_preserves_meaning): elements, chains, path items, root *)
                    let rm := match nd with JObj m => m | _ => [] end in
                    let enodes := collect_e gen_env docs' "/" 600 (root_items root rm) [] in
                    let nodes2 := collect gen_env docs' "/" 800 (schema_starts root rm enodes) [] in
                    let bad0 := def_keys rm in
                    let spec_ok := check_nodes gen_env docs' "/" o root "" nodes2 && check_enodes gen_env docs' "/" enodes nodes2
                                   && check_chains gen_env docs' "/" nodes2 enodes bad0 (ranks_of gen_env docs' "/" enodes)
                                   && check_pis enodes && check_root root nodes2 enodes bad0 rm in
                    JObj [("domain", JBool true); ("nodes", JNum (Z.of_nat (List.length nodes)) 0);
                          ("enodes", JNum (Z.of_nat (List.length enodes)) 0); ("spec_hyps", JBool spec_ok);
                          ("spec_resolvable", JBool (spec_ok && check_resolvable gen_env docs' "/" o root "" nodes2 && check_eresolvable gen_env docs' "/" enodes));
                          ("refs", JNum (Z.of_nat (List.length (refs_of nodes))) 0);
                          ("check_nodes", JBool (check_nodes gen_env docs' "/" o root "" nodes));
                          ("resolvable", JBool (check_resolvable gen_env docs' "/" o root "" nodes));
                          ("acyclic", JBool (rank_check gen_env docs' "/" ordered && canon_check ordered))]
                | _ => JObj [("domain", JBool false)]
                end
    | None => jerr "no root document"
    end
  else jerr "unknown op".

Definition main_expand (line : string) : string := run_line run_expand line.
