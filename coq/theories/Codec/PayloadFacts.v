(* Free-form payloads (default, example, enum entries, the values of vendor extensions, unknown keywords of a schema,
   examples of a response): a payload is decoded into interface{} and encoded again, which sorts the members of every
   object by name and lets the last of several members with one name win (norm_any).

   Proved here for EVERY JSON value, of any size and nesting: the result has its members strictly sorted at every level,
   normalising it again changes nothing (C07: the encoded form is a fixed point), and a value whose objects are already
   strictly sorted is returned as it is (C01: a payload in normal form survives with its exact value). *)
From Coq Require Import List String Ascii Bool Arith Lia Sorting.Sorted Permutation.
From Spec Require Import Base.Json Base.JsonFacts Codec.Types Codec.Codec Codec.CodecFacts.
Import ListNotations.
Local Open Scope string_scope.

(* ---------- sort_members on arbitrary lists (duplicates included) ---------- *)
Lemma str_ltb_false_gt a b : String.eqb a b = false -> str_ltb a b = false -> str_ltb b a = true.
Proof.
  intros He Hl. apply String.eqb_neq in He. destruct (str_ltb_total a b He) as [H|H]; [congruence|exact H].
Qed.

Lemma insert_member_keys k v : forall l x, In x (map fst (insert_member k v l)) -> x = k \/ In x (map fst l).
Proof.
  induction l as [|[k' v'] r IH]; intros x Hx; cbn [insert_member] in Hx.
  - destruct Hx as [<-|[]]. left. reflexivity.
  - destruct (String.eqb k k') eqn:Ee.
    + cbn [map fst] in Hx. destruct Hx as [<-|Hx]; [left; reflexivity|right; right; exact Hx].
    + destruct (str_ltb k k').
      * cbn [map fst] in Hx. destruct Hx as [<-|Hx]; [left; reflexivity|right; exact Hx].
      * cbn [map fst] in Hx. destruct Hx as [<-|Hx]; [right; left; reflexivity|].
        destruct (IH x Hx) as [->|H]; [left; reflexivity|right; right; exact H].
Qed.

Lemma insert_member_sorted k v : forall l, StronglySorted mlt l -> StronglySorted mlt (insert_member k v l).
Proof.
  induction l as [|[k' v'] r IH]; intros Hs; cbn [insert_member]; [repeat constructor|].
  inversion Hs as [|? ? Hsr Hall]; subst.
  destruct (String.eqb k k') eqn:Ee.
  - apply String.eqb_eq in Ee. subst k'. constructor; [exact Hsr|]. exact Hall.
  - destruct (str_ltb k k') eqn:L.
    + constructor; [exact Hs|]. constructor; [exact L|].
      rewrite Forall_forall in *. intros z Hz. unfold mlt in *. cbn [fst]. eapply str_ltb_trans; [exact L|apply (Hall z Hz)].
    + constructor; [exact (IH Hsr)|]. rewrite Forall_forall in *. intros z Hz. unfold mlt. cbn [fst].
      assert (Hk : In (fst z) (map fst (insert_member k v r))) by (apply in_map; exact Hz).
      destruct (insert_member_keys _ _ _ _ Hk) as [->|Hin].
      * apply str_ltb_false_gt; assumption.
      * apply in_map_iff in Hin. destruct Hin as [w [Hw Hinw]]. pose proof (Hall w Hinw) as H. unfold mlt in H. cbn [fst] in H. rewrite <- Hw. exact H.
Qed.

Lemma fold_insert_sorted : forall l acc, StronglySorted mlt acc ->
  StronglySorted mlt (fold_left (fun a kv => insert_member (fst kv) (snd kv) a) l acc).
Proof.
  induction l as [|[k v] r IH]; intros acc Hs; cbn [fold_left fst snd]; [exact Hs|]. apply IH. apply insert_member_sorted. exact Hs.
Qed.
Theorem sort_members_is_sorted l : StronglySorted mlt (sort_members l).
Proof. unfold sort_members. apply fold_insert_sorted. constructor. Qed.

(* inserting a name greater than every name present appends *)
Lemma insert_member_last k v : forall l, Forall (fun x => str_ltb (fst x) k = true) l -> insert_member k v l = (l ++ [(k, v)])%list.
Proof.
  induction l as [|[k' v'] r IH]; intros Hall; cbn [insert_member app]; [reflexivity|].
  inversion Hall as [|? ? Hx Hr]; subst. cbn [fst] in Hx.
  assert (Hne : String.eqb k k' = false).
  { apply String.eqb_neq. intros ->. rewrite str_ltb_irrefl in Hx. discriminate. }
  assert (Hnl : str_ltb k k' = false).
  { destruct (str_ltb k k') eqn:L; [|reflexivity]. pose proof (str_ltb_trans _ _ _ L Hx) as H. rewrite str_ltb_irrefl in H. discriminate. }
  rewrite Hne, Hnl. rewrite (IH Hr). reflexivity.
Qed.

Lemma fold_insert_sorted_id : forall l acc, StronglySorted mlt (acc ++ l)%list ->
  fold_left (fun a kv => insert_member (fst kv) (snd kv) a) l acc = (acc ++ l)%list.
Proof.
  induction l as [|[k v] r IH]; intros acc Hs; cbn [fold_left fst snd]; [rewrite app_nil_r; reflexivity|].
  assert (Hlast : Forall (fun x => str_ltb (fst x) k = true) acc).
  { clear IH. induction acc as [|a acc' IHa]; [constructor|]. cbn [app] in Hs. inversion Hs as [|? ? Hs' Hall]; subst.
    constructor; [|apply IHa; exact Hs']. rewrite Forall_forall in Hall. apply (Hall (k, v)). apply in_or_app. right. left. reflexivity. }
  rewrite (insert_member_last k v acc Hlast).
  rewrite IH; [rewrite <- app_assoc; reflexivity|]. rewrite <- app_assoc. exact Hs.
Qed.
(* a strictly sorted member list is its own sorting *)
Theorem sort_members_sorted_id l : StronglySorted mlt l -> sort_members l = l.
Proof. intros Hs. unfold sort_members. rewrite fold_insert_sorted_id; [reflexivity|exact Hs]. Qed.

(* sorting looks at the names only *)
Definition map_vals (f : json -> json) (l : list (string * json)) : list (string * json) := map (fun kv => (fst kv, f (snd kv))) l.
Lemma insert_member_map f k v : forall l, insert_member k (f v) (map_vals f l) = map_vals f (insert_member k v l).
Proof.
  induction l as [|[k' v'] r IH]; cbn [map_vals map insert_member fst snd]; [reflexivity|].
  destruct (String.eqb k k'); [reflexivity|]. destruct (str_ltb k k'); [reflexivity|].
  cbn [map fst snd]. f_equal. exact IH.
Qed.
Lemma sort_members_map f l : sort_members (map_vals f l) = map_vals f (sort_members l).
Proof.
  unfold sort_members. change (@nil (string * json)) with (map_vals f []) at 1. generalize (@nil (string * json)) as acc.
  induction l as [|[k v] r IH]; intros acc; cbn [map_vals map fold_left fst snd]; [reflexivity|].
  change (map (fun kv : string * json => (fst kv, f (snd kv))) r) with (map_vals f r).
  change (map (fun kv : string * json => (fst kv, f (snd kv))) acc) with (map_vals f acc).
  rewrite insert_member_map. apply IH.
Qed.
Lemma map_vals_sorted f l : StronglySorted mlt l -> StronglySorted mlt (map_vals f l).
Proof.
  induction l as [|[k v] r IH]; intros Hs; cbn [map_vals map]; [constructor|].
  inversion Hs as [|? ? Hsr Hall]; subst. constructor; [exact (IH Hsr)|].
  rewrite Forall_forall in *. intros z Hz. apply in_map_iff in Hz. destruct Hz as [w [<- Hw]]. exact (Hall w Hw).
Qed.

(* norm_any through its members *)
Lemma norm_any_obj m : norm_any (JObj m) = JObj (sort_members (map_vals norm_any m)).
Proof.
  cbn [norm_any]. f_equal. f_equal. induction m as [|[k v] r IH]; [reflexivity|]. cbn [map_vals map fst snd]. f_equal. exact IH.
Qed.
Lemma norm_any_arr l : norm_any (JArr l) = JArr (map norm_any l).
Proof. reflexivity. Qed.

Lemma map_vals_ext f g l : (forall k v, In (k, v) l -> f v = g v) -> map_vals f l = map_vals g l.
Proof.
  induction l as [|[k v] r IH]; intros H; cbn [map_vals map fst snd]; [reflexivity|]. f_equal.
  - f_equal. apply (H k v). left. reflexivity.
  - apply IH. intros k' v' Hin. apply (H k' v'). right. exact Hin.
Qed.
Lemma map_vals_comp f g l : map_vals f (map_vals g l) = map_vals (fun x => f (g x)) l.
Proof. unfold map_vals. rewrite map_map. reflexivity. Qed.

(* ---------- the normal form of a payload is a fixed point ---------- *)
Theorem norm_any_idem : forall j, norm_any (norm_any j) = norm_any j.
Proof.
  intros j. remember (jsize j) as n eqn:En. revert j En.
  induction n as [n IH] using lt_wf_ind. intros j En. subst n.
  destruct j as [| | | |l|m]; try reflexivity.
  - rewrite !norm_any_arr. f_equal. rewrite map_map. apply map_ext_in. intros x Hx.
    apply (IH (jsize x) (jsize_elem l x Hx) x eq_refl).
  - rewrite norm_any_obj. rewrite norm_any_obj. f_equal.
    rewrite (sort_members_map norm_any (sort_members (map_vals norm_any m))).
    rewrite (sort_members_sorted_id (sort_members (map_vals norm_any m))) by apply sort_members_is_sorted.
    rewrite <- sort_members_map. rewrite map_vals_comp.
    rewrite (map_vals_ext (fun x => norm_any (norm_any x)) norm_any m); [reflexivity|].
    intros k v Hin. apply (IH (jsize v) (jsize_value m k v Hin) v eq_refl).
Qed.

(* strictly sorted member names at every level *)
Inductive payload_nf : json -> Prop :=
| pn_null : payload_nf JNull
| pn_bool b : payload_nf (JBool b)
| pn_num m e : payload_nf (JNum m e)
| pn_str s : payload_nf (JStr s)
| pn_arr l : (forall x, In x l -> payload_nf x) -> payload_nf (JArr l)
| pn_obj m : StronglySorted mlt m -> (forall k v, In (k, v) m -> payload_nf v) -> payload_nf (JObj m).

Lemma map_vals_id l : map_vals (fun x => x) l = l.
Proof. induction l as [|[k v] r IH]; cbn [map_vals map fst snd]; [reflexivity|]. f_equal. exact IH. Qed.

(* a payload in normal form survives with its exact value *)
Theorem norm_any_nf_id : forall j, payload_nf j -> norm_any j = j.
Proof.
  intros j. remember (jsize j) as n eqn:En. revert j En.
  induction n as [n IH] using lt_wf_ind. intros j En Hnf. subst n.
  inversion Hnf as [| | | |l Hl|m Hs Hm]; subst; try reflexivity.
  - rewrite norm_any_arr. f_equal. rewrite <- (map_id l) at 2. apply map_ext_in. intros x Hx.
    apply (IH (jsize x) (jsize_elem l x Hx) x eq_refl (Hl x Hx)).
  - rewrite norm_any_obj. f_equal. rewrite (map_vals_ext norm_any (fun x => x) m).
    + rewrite map_vals_id. apply sort_members_sorted_id. exact Hs.
    + intros k v Hin. apply (IH (jsize v) (jsize_value m k v Hin) v eq_refl (Hm k v Hin)).
Qed.

(* ... and what norm_any returns is in that normal form *)
Theorem norm_any_is_nf : forall j, payload_nf (norm_any j).
Proof.
  intros j. remember (jsize j) as n eqn:En. revert j En.
  induction n as [n IH] using lt_wf_ind. intros j En. subst n.
  destruct j as [|b|m e|s|l|m]; [constructor|constructor|constructor|constructor| |].
  - rewrite norm_any_arr. constructor. intros x Hx. apply in_map_iff in Hx. destruct Hx as [y [<- Hy]].
    apply (IH (jsize y) (jsize_elem l y Hy) y eq_refl).
  - rewrite norm_any_obj. constructor; [apply sort_members_is_sorted|].
    intros k v Hin. rewrite sort_members_map in Hin. unfold map_vals in Hin. apply in_map_iff in Hin.
    destruct Hin as [[k0 v0] [Heq Hin0]]. cbn [fst snd] in Heq. injection Heq as Hk Hv. subst k v.
    (* (k0, v0) is a member of the sorted input: one of the input's members *)
    assert (Hsub : forall l acc x, In x (fold_left (fun a kv => insert_member (fst kv) (snd kv) a) l acc) -> In x acc \/ In x l).
    { clear. induction l as [|[k v] r IHl]; intros acc x Hx; cbn [fold_left fst snd] in Hx; [left; exact Hx|].
      destruct (IHl _ _ Hx) as [H|H]; [|right; right; exact H].
      assert (Hins : forall l0, In x (insert_member k v l0) -> x = (k, v) \/ In x l0).
      { clear. induction l0 as [|[k' v'] r0 IH0]; cbn [insert_member]; intros Hx.
        - destruct Hx as [<-|[]]. left. reflexivity.
        - destruct (String.eqb k k'); [destruct Hx as [<-|Hx]; [left; reflexivity|right; right; exact Hx]|].
          destruct (str_ltb k k'); [destruct Hx as [<-|Hx]; [left; reflexivity|right; exact Hx]|].
          destruct Hx as [<-|Hx]; [right; left; reflexivity|]. destruct (IH0 Hx) as [->|H0]; [left; reflexivity|right; right; exact H0]. }
      destruct (Hins _ H) as [->|H']; [right; left; reflexivity|left; exact H']. }
    destruct (Hsub m [] (k0, v0) Hin0) as [[]|Hm].
    apply (IH (jsize v0) (jsize_value m k0 v0 Hm) v0 eq_refl).
Qed.

(* ---------- the codec at a free-form position ---------- *)
Lemma norm_payload E j : norm E false j TAny = ROk (norm_any j).
Proof. destruct j; reflexivity. Qed.

Theorem payload_fixed_point E j v : norm E false j TAny = ROk v -> norm E false v TAny = ROk v.
Proof. rewrite norm_payload. intros H. inversion H; subst. rewrite norm_payload. rewrite norm_any_idem. reflexivity. Qed.

Theorem payload_round_trip E j : payload_nf j -> norm E false j TAny = ROk j.
Proof. intros H. rewrite norm_payload. rewrite (norm_any_nf_id j H). reflexivity. Qed.

(* ---------- vendor extensions ---------- *)
Lemma insert_member_In k v x : forall l, In x (insert_member k v l) -> x = (k, v) \/ In x l.
Proof.
  induction l as [|[k' v'] r IH]; cbn [insert_member]; intros Hx.
  - destruct Hx as [<-|[]]. left. reflexivity.
  - destruct (String.eqb k k'); [destruct Hx as [<-|Hx]; [left; reflexivity|right; right; exact Hx]|].
    destruct (str_ltb k k'); [destruct Hx as [<-|Hx]; [left; reflexivity|right; exact Hx]|].
    destruct Hx as [<-|Hx]; [right; left; reflexivity|]. destruct (IH Hx) as [->|H0]; [left; reflexivity|right; right; exact H0].
Qed.
Lemma sort_members_In x : forall l, In x (sort_members l) -> In x l.
Proof.
  unfold sort_members. intros l H.
  assert (Hg : forall l acc, In x (fold_left (fun a kv => insert_member (fst kv) (snd kv) a) l acc) -> In x acc \/ In x l).
  { clear. induction l as [|[k v] r IH]; intros acc Hx; cbn [fold_left fst snd] in Hx; [left; exact Hx|].
    destruct (IH _ Hx) as [H|H]; [|right; right; exact H].
    destruct (insert_member_In _ _ _ _ H) as [->|H']; [right; left; reflexivity|left; exact H']. }
  destruct (Hg l [] H) as [[]|H']. exact H'.
Qed.

Definition is_ext (kv : string * json) : bool := has_x_prefix_ci (fst kv).
Lemma ext_members_eq m : ext_members m = sort_members (map_vals norm_any (filter is_ext m)).
Proof.
  unfold ext_members. f_equal. induction m as [|[k v] r IH]; [reflexivity|].
  cbn [flat_map filter]. unfold is_ext at 1. cbn [fst snd]. destruct (has_x_prefix_ci k); cbn [app map_vals map fst snd]; rewrite IH; reflexivity.
Qed.
Lemma filter_all {A} (p : A -> bool) l : (forall x, In x l -> p x = true) -> filter p l = l.
Proof.
  induction l as [|a r IH]; intros H; cbn [filter]; [reflexivity|]. rewrite (H a (or_introl eq_refl)). f_equal. apply IH. intros x Hx. apply H. right. exact Hx.
Qed.

(* the extensions of an encoded object are read back as they were written *)
Theorem ext_members_idem m : ext_members (ext_members m) = ext_members m.
Proof.
  rewrite (ext_members_eq (ext_members m)). rewrite (ext_members_eq m).
  set (l := map_vals norm_any (filter is_ext m)).
  rewrite (filter_all is_ext (sort_members l)).
  - rewrite (sort_members_map norm_any (sort_members l)).
    rewrite (sort_members_sorted_id (sort_members l)) by apply sort_members_is_sorted.
    rewrite <- sort_members_map. unfold l. rewrite map_vals_comp.
    rewrite (map_vals_ext (fun x => norm_any (norm_any x)) norm_any); [reflexivity|]. intros k v _. apply norm_any_idem.
  - intros x Hx. apply sort_members_In in Hx. unfold l, map_vals in Hx. apply in_map_iff in Hx. destruct Hx as [y [<- Hy]].
    apply filter_In in Hy. destruct Hy as [_ Hy]. unfold is_ext in *. cbn [fst]. exact Hy.
Qed.

(* strictly increasing names are pairwise distinct *)
Lemma sorted_nodup (m : list (string * json)) : StronglySorted mlt m -> NoDup (map fst m).
Proof.
  induction m as [|[k v] r IH]; intros H; cbn [map fst]; [constructor|]. inversion H as [|? ? Hr Hall]; subst.
  constructor; [|exact (IH Hr)]. intros Hin. apply in_map_iff in Hin. destruct Hin as [[k' v'] [Hk Hin]]. cbn [fst] in Hk. subst k'.
  rewrite Forall_forall in Hall. pose proof (Hall _ Hin) as Hlt. unfold mlt in Hlt. cbn [fst] in Hlt. rewrite str_ltb_irrefl in Hlt. discriminate.
Qed.
(* no object inside an emitted payload has two members with one name *)
Inductive nodup_names : json -> Prop :=
| nn_null : nodup_names JNull
| nn_bool b : nodup_names (JBool b)
| nn_num m e : nodup_names (JNum m e)
| nn_str s : nodup_names (JStr s)
| nn_arr l : (forall x, In x l -> nodup_names x) -> nodup_names (JArr l)
| nn_obj m : NoDup (map fst m) -> (forall k v, In (k, v) m -> nodup_names v) -> nodup_names (JObj m).
Theorem payload_nf_nodup : forall j, payload_nf j -> nodup_names j.
Proof.
  intros j. remember (jsize j) as n eqn:En. revert j En.
  induction n as [n IH] using lt_wf_ind. intros j En Hnf. subst n.
  inversion Hnf as [| | | |l Hl|m Hs Hm]; subst; try constructor.
  - intros x Hx. apply (IH (jsize x) (jsize_elem l x Hx) x eq_refl (Hl x Hx)).
  - apply sorted_nodup. exact Hs.
  - intros k v Hin. apply (IH (jsize v) (jsize_value m k v Hin) v eq_refl (Hm k v Hin)).
Qed.
