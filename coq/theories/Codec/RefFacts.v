(* The JSON (and gob: G = true) codecs of a reference, on texts: the encoding of a plain canonical reference decodes to
   the same reference, and the unset reference is the empty object. *)
From Coq Require Import List String Ascii Bool Arith.
From Spec Require Import Base.Json Base.Url Base.UrlFacts Base.UrlText Codec.Types Codec.Codec.
Import ListNotations.
Local Open Scope string_scope.

Lemma s2l_l2s x : s2l (l2s x) = x.
Proof. apply list_ascii_of_string_of_list_ascii. Qed.

Definition ref_obj (t : chars) : json := JObj [("$ref", JStr (l2s t))].

Lemma norm_ref_obj E G m k : k = "Ref" \/ k = "Refable" ->
  norm E G (JObj m) (TNamed k) =
  match ref_member m with
  | RefNone => ROk (JObj []) | RefStr s => ROk (JObj [("$ref", JStr s)]) | RefBad => RErr | RefUnsup => RUnsup
  end.
Proof. intros [->| ->]; reflexivity. Qed.

Theorem ref_codec_roundtrip E G u k : k = "Ref" \/ k = "Refable" ->
  one_port (map lower (u_host u)) = true -> wf_plain (normalize_url u) = true ->
  norm E G (ref_obj (ref_string (ref_of_url u))) (TNamed k) = ROk (ref_obj (ref_string (ref_of_url u))).
Proof.
  intros K O W. unfold ref_obj. rewrite (norm_ref_obj E G _ k K).
  unfold ref_member. cbn [rev app assoc].
  change ("$ref" =? "$ref")%string with true. cbv beta iota.
  rewrite s2l_l2s, (ref_text_roundtrip u O W). reflexivity.
Qed.

(* the unset reference (no `$ref` member at all) is the empty object, both ways *)
Theorem ref_codec_unset E G k : k = "Ref" \/ k = "Refable" -> norm E G (JObj []) (TNamed k) = ROk (JObj []).
Proof. intros K. rewrite (norm_ref_obj E G _ k K). reflexivity. Qed.
