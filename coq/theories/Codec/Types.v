(* Type descriptors of the codec model: the shapes of Go types as encoding/json sees them. *)
From Coq Require Import List String Bool.
Import ListNotations.

Inductive fty :=
| TStr | TBool | TF64 | TInt | TAny | TFunc | TUnsupported
| TPtr (t : fty)
| TSlice (t : fty)
| TMap (t : fty)       (* map[string]T *)
| TIntMap (t : fty)    (* map[int]T *)
| TNamed (k : string). (* a named type of the package: struct, alias or a type with custom codec methods *)

Record field := mkField {
  f_go : string;        (* Go field name (for an embedded struct: its type name) *)
  f_json : string;      (* JSON member name *)
  f_omit : bool;        (* omitempty *)
  f_skip : bool;        (* json:"-" *)
  f_embedded : bool;    (* embedded without a name tag: its fields are promoted *)
  f_ty : fty }.
