(* Executable model of "decode with encoding/json into the package's types, then encode again":
   [norm E j t] is the JSON json.Marshal produces for the value json.Unmarshal builds from j into a
   Go value of type t (members in the order Go emits them), or an error.
   The generic rules of encoding/json (field matching, null, omitempty, map key order) are driven by
   the tables of Gen_Tables.v; the hand-written (Un)MarshalJSON methods of the package are
   transcribed kind by kind.  Definitions only. *)
From Coq Require Import List String Ascii Bool Arith ZArith.
From Spec Require Import Base.Json Base.Url Codec.Types.
Import ListNotations.
Local Open Scope string_scope.

Inductive res := ROk (v : json) | RErr | RUnsup.

(* ---------- tables ---------- *)
Record env := mkEnv {
  e_structs : list (string * list field);
  e_aliases : list (string * fty);
  e_marshal_parts : list (string * list string);
  e_unmarshal_parts : list (string * list string) }.

Definition struct_fields (E : env) (k : string) : list field :=
  match assoc k (e_structs E) with Some fs => fs | None => [] end.

(* named types whose codec is hand-written in the package and transcribed below *)
Definition custom_kinds : list string :=
  ["Schema"; "SchemaProperties"; "StringOrArray"; "SchemaOrBool"; "SchemaOrArray"; "SchemaOrStringArray";
   "Responses"; "Paths"; "Response"; "SecurityScheme"; "Operation"; "Items"; "Ref"; "Refable"; "SchemaURL";
   "VendorExtensible"; "Extensions"].

(* strip pointers and (non-custom) aliases at the head of a type *)
Fixpoint head_ty (E : env) (fuel : nat) (t : fty) : fty :=
  match fuel with
  | O => t
  | S f => match t with
           | TPtr t' => head_ty E f t'
           | TNamed k => if mem_str k custom_kinds then t
                         else match assoc k (e_aliases E) with
                              | Some u => head_ty E f u
                              | None => t
                              end
           | _ => t
           end
  end.

(* ---------- strings ---------- *)
Fixpoint str_ltb (a b : string) : bool :=   (* bytewise order, as Go compares strings *)
  match a, b with
  | EmptyString, EmptyString => false
  | EmptyString, String _ _ => true
  | String _ _, EmptyString => false
  | String x a', String y b' =>
      if Nat.ltb (nat_of_ascii x) (nat_of_ascii y) then true
      else if Nat.ltb (nat_of_ascii y) (nat_of_ascii x) then false
      else str_ltb a' b'
  end.

Definition lower_str (s : string) : string := l2s (map lower (s2l s)).
Definition has_x_prefix_ci (s : string) : bool := has_prefix (s2l "x-") (map lower (s2l s)).
Definition has_x_prefix (s : string) : bool := has_prefix (s2l "x-") (s2l s).
Definition has_slash_prefix (s : string) : bool := has_prefix (s2l "/") (s2l s).

(* encoding/json matches a member name to a field name exactly, else ignoring ASCII case *)
Definition fold_eqb (a b : string) : bool := String.eqb (lower_str a) (lower_str b).

Fixpoint find_exact (fs : list field) (n : string) : option field :=
  match fs with
  | [] => None
  | f :: r => if negb (f_skip f) && String.eqb (f_json f) n then Some f else find_exact r n
  end.
Fixpoint find_fold (fs : list field) (n : string) : option field :=
  match fs with
  | [] => None
  | f :: r => if negb (f_skip f) && fold_eqb (f_json f) n then Some f else find_fold r n
  end.
Definition find_field (fs : list field) (n : string) : option field :=
  match find_exact fs n with Some f => Some f | None => find_fold fs n end.

(* ---------- sorted member lists (Go marshals maps with sorted keys; later duplicates win) ---------- *)
Fixpoint insert_member (k : string) (v : json) (l : list (string * json)) : list (string * json) :=
  match l with
  | [] => [(k, v)]
  | (k', v') :: r =>
      if String.eqb k k' then (k, v) :: r
      else if str_ltb k k' then (k, v) :: l
      else (k', v') :: insert_member k v r
  end.
Definition sort_members (l : list (string * json)) : list (string * json) :=
  fold_left (fun acc kv => insert_member (fst kv) (snd kv) acc) l [].

(* free-form payload: decoded into interface{} and encoded again *)
Fixpoint norm_any (j : json) : json :=
  match j with
  | JArr l => JArr (map norm_any l)
  | JObj m =>
      JObj (sort_members ((fix go (m : list (string * json)) : list (string * json) :=
                             match m with [] => [] | (k, v) :: r => (k, norm_any v) :: go r end) m))
  | _ => j
  end.

(* the same payload after a gob transport: an empty array inside an interface{} value arrives as a nil slice (null) *)
Fixpoint gob_any (j : json) : json :=
  match j with
  | JArr [] => JNull
  | JArr l => JArr (map gob_any l)
  | JObj m => JObj ((fix go (m : list (string * json)) : list (string * json) :=
                       match m with [] => [] | (k, v) :: r => (k, gob_any v) :: go r end) m)
  | _ => j
  end.

(* ---------- emptiness (omitempty) of an encoded value, by the Go kind of the field ---------- *)
Definition is_empty (E : env) (t : fty) (v : json) : bool :=
  match t with
  | TPtr _ => match v with JNull => true | _ => false end
  | _ =>
      match head_ty E 6 t with
      | TStr => match v with JStr s => String.eqb s "" | _ => false end
      | TBool => match v with JBool b => negb b | _ => false end
      | TF64 | TInt => match v with JNum m _ => Z.eqb m 0 | _ => false end
      | TAny => match v with JNull => true | _ => false end
      | TSlice _ | TMap _ | TIntMap _ => match v with JNull => true | JArr [] => true | JObj [] => true | _ => false end
      | TNamed k =>
          if String.eqb k "StringOrArray" then match v with JNull => true | JArr [] => true | _ => false end
          else if String.eqb k "SchemaProperties" || String.eqb k "Extensions" then match v with JNull => true | JObj [] => true | _ => false end
          else if String.eqb k "SchemaURL" then match v with JStr s => String.eqb s "" | _ => false end
          else false       (* struct values are never empty *)
      | _ => false
      end
  end.

(* the encoding of the zero value of a field that was not set *)
Definition zero_of (E : env) (t : fty) : json :=
  match t with
  | TPtr _ => JNull
  | _ => match head_ty E 6 t with
         | TStr => JStr ""
         | TBool => JBool false
         | TF64 | TInt => JNum 0 0
         | TNamed k => if String.eqb k "SchemaURL" then JStr "" else if mem_str k custom_kinds then JNull else JObj []
         | _ => JNull
         end
  end.

(* struct fields in the order encoding/json emits them: embedded structs are flattened in place *)
Fixpoint flat_fields (E : env) (fuel : nat) (fs : list field) : list field :=
  match fuel with
  | O => fs
  | S f =>
      flat_map (fun fd =>
        if f_embedded fd then
          match f_ty fd with
          | TNamed k => if mem_str k custom_kinds then [fd] else
                          match assoc k (e_structs E) with Some sub => flat_fields E f sub | None => [fd] end
          | _ => [fd]
          end
        else [fd]) fs
  end.
Definition fields_of (E : env) (k : string) : list field := flat_fields E 3 (struct_fields E k).
Definition fields_of_parts (E : env) (parts : list string) : list field := flat_map (fields_of E) parts.

(* [acc] holds the members that were present with a non-null value; a pointer field set from such a
   member is a non-nil pointer and is never "empty", whatever it encodes to *)
Definition emit_fields (E : env) (fs : list field) (acc : list (string * json)) : list (string * json) :=
  flat_map (fun f =>
    if f_skip f then [] else
    match assoc (f_json f) acc with
    | Some v => let empty := match f_ty f with TPtr _ | TAny => false | t => is_empty E t v end in
                if f_omit f && empty then [] else [(f_json f, v)]
    | None => let v := zero_of E (f_ty f) in
              if f_omit f && is_empty E (f_ty f) v then [] else [(f_json f, v)]
    end) fs.

(* ---------- $ref / $schema members ---------- *)
Inductive refres := RefNone | RefStr (s : string) | RefBad | RefUnsup.
Definition ref_member (m : list (string * json)) : refres :=
  match assoc "$ref" (rev m) with
  | Some (JStr s) => match new_ref (s2l s) with
                     | POk r => RefStr (l2s (ref_string r))
                     | PErr => RefBad
                     | PUnsupported => RefUnsup
                     end
  | _ => RefNone
  end.
Definition schema_member (m : list (string * json)) : refres :=
  match assoc "$schema" (rev m) with
  | Some (JStr s) => match parse_url (s2l s) with
                     | POk u => RefStr (l2s (print_url u))
                     | PErr => RefBad
                     | PUnsupported => RefUnsup
                     end
  | _ => RefNone
  end.

(* vendor extensions: members whose lower-cased name starts with "x-", as free-form payloads *)
Definition ext_members (m : list (string * json)) : list (string * json) :=
  sort_members (flat_map (fun kv => if has_x_prefix_ci (fst kv) then [(fst kv, norm_any (snd kv))] else []) m).

(* ---------- integers ---------- *)
Fixpoint digits_val (s : chars) (acc : Z) : option Z :=
  match s with
  | [] => Some acc
  | c :: r => match digit_val c with Some d => digits_val r (acc * 10 + d)%Z | None => None end
  end.
Definition atoi (s : string) : option Z :=      (* strconv.Atoi, without its range check *)
  match s2l s with
  | [] => None
  | c :: r =>
      if Ascii.eqb c "-" then match r with [] => None | _ => option_map Z.opp (digits_val r 0) end
      else if Ascii.eqb c "+" then match r with [] => None | _ => digits_val r 0 end
      else digits_val (c :: r) 0
  end.

(* x-order of an already normalised schema object, as Extensions.GetInt reads it *)
Definition get_order (j : json) : option Z :=
  match jfield "x-order" j with
  | Some (JStr s) => atoi s
  | Some (JNum m e) =>
      (* float64 -> int truncation toward zero *)
      let '(a, b) := num_norm m e in
      if Z.leb 0 b then Some (a * Z.pow 10 b)%Z else Some (Z.quot a (Z.pow 10 (- b)))
  | _ => None
  end.
Definition item_less (a b : string * json) : bool :=
  match get_order (snd a), get_order (snd b) with
  | Some x, Some y => if Z.eqb x y then str_ltb (fst a) (fst b) else Z.ltb x y
  | Some _, None => true
  | None, Some _ => false
  | None, None => str_ltb (fst a) (fst b)
  end.
Fixpoint insert_item (x : string * json) (l : list (string * json)) : list (string * json) :=
  match l with
  | [] => [x]
  | y :: r => if item_less y x then y :: insert_item x r else x :: l
  end.
Definition order_items (l : list (string * json)) : list (string * json) := fold_right insert_item [] l.

(* ---------- the codec ---------- *)
(* a JSON number decodes into an int64 field when it is written as a plain integer literal in range *)
Definition is_int_literal (m e : Z) : bool :=
  Z.eqb e 0 && Z.leb (-9223372036854775808) m && Z.leb m 9223372036854775807.

Definition lift_list (l : list res) : option (list json) + bool :=  (* inr true = unsupported, inr false = error *)
  fold_right (fun r acc =>
    match r, acc with
    | ROk v, inl (Some vs) => inl (Some (v :: vs))
    | RUnsup, inl _ => inr true
    | RErr, inl _ => inr false
    | _, a => a
    end) (inl (Some [])) l.

Section Norm.
Variable E : env.
Variable G : bool.    (* true: the value additionally travels through encoding/gob between decoding and encoding (C14) *)
Definition any_of (j : json) : json := if G then gob_any (norm_any j) else norm_any j.
(* gob does not transmit zero values: a pointer to a zero number arrives as a nil pointer *)
Definition gext (m : list (string * json)) : list (string * json) :=
  map (fun kv => (fst kv, if G then gob_any (snd kv) else snd kv)) (ext_members m).
Definition gob_drops (t : fty) (v : json) : bool :=
  G && match t with
       | TPtr TF64 | TPtr TInt => match v with JNum m _ => Z.eqb m 0 | _ => false end
       | _ => false
       end.

Definition parts_dec (k : string) : list string :=
  if String.eqb k "Items" then ["CommonValidations"; "Refable"; "SimpleSchema"; "VendorExtensible"]
  else match assoc k (e_unmarshal_parts E) with Some p => p | None => [] end.
Definition parts_enc (k : string) : list string :=
  match assoc k (e_marshal_parts E) with Some p => p | None => [] end.

(* the alternative structs Response.MarshalJSON and SecurityScheme.MarshalJSON use *)
Definition response_ref_fields : list field :=
  [mkField "Description" "description" true false false TStr;
   mkField "Schema" "schema" true false false (TPtr (TNamed "Schema"));
   mkField "Headers" "headers" true false false (TMap (TNamed "Header"));
   mkField "Examples" "examples" true false false (TMap TAny)].
Definition secscheme_plain_fields : list field :=
  [mkField "Description" "description" true false false TStr; mkField "Type" "type" false false false TStr;
   mkField "Name" "name" true false false TStr; mkField "In" "in" true false false TStr;
   mkField "Flow" "flow" true false false TStr; mkField "AuthorizationURL" "authorizationUrl" true false false TStr;
   mkField "TokenURL" "tokenUrl" true false false TStr; mkField "Scopes" "scopes" true false false (TMap TStr)].

(* one part of a ConcatJSON call, given the accumulated field values and the raw members *)
Definition emit_part (k : string) (dec : list string) (acc m : list (string * json)) (p : string) : option (list (string * json)) + bool :=
  if negb (mem_str p dec) && negb (String.eqb (substring 0 1 p) "?") then
    (* marshalled but never filled: its zero value *)
    if String.eqb p "VendorExtensible" || String.eqb p "Refable" || String.eqb p "Ref" then inl (Some [])
    else inl (Some (emit_fields E (fields_of E p) []))
  else if String.eqb p "VendorExtensible" then inl (Some (gext m))
  else if String.eqb p "Refable" || String.eqb p "Ref" then
    match ref_member m with
    | RefNone => inl (Some [])
    | RefStr s => inl (Some [("$ref", JStr s)])
    | RefBad => inr false
    | RefUnsup => inr true
    end
  else if String.eqb k "Response" && String.eqb (substring 0 1 p) "?" then
    match ref_member m with
    | RefStr s => if String.eqb s "" then inl (Some (emit_fields E (fields_of E "ResponseProps") acc))
                  else inl (Some (emit_fields E response_ref_fields acc))
    | RefNone => inl (Some (emit_fields E (fields_of E "ResponseProps") acc))
    | RefBad => inr false
    | RefUnsup => inr true
    end
  else if String.eqb k "SecurityScheme" && String.eqb (substring 0 1 p) "?" then
    let ty := assoc "type" acc in let fl := assoc "flow" acc in
    let is s o := match o with Some (JStr x) => String.eqb x s | _ => false end in
    if is "oauth2" ty && (is "implicit" fl || is "accessCode" fl)
    then inl (Some (emit_fields E (fields_of E "SecuritySchemeProps") acc))
    else inl (Some (emit_fields E secscheme_plain_fields acc))
  else if String.eqb p "OperationProps" then
    (* security first; kept (even empty) when non-nil *)
    let rest := emit_fields E (filter (fun f => negb (String.eqb (f_json f) "security")) (fields_of E "OperationProps")) acc in
    match assoc "security" acc with
    | Some JNull | None => inl (Some rest)
    | Some v => inl (Some (("security", v) :: rest))
    end
  else inl (Some (emit_fields E (fields_of E p) acc)).

Fixpoint concat_parts (k : string) (dec : list string) (acc m : list (string * json)) (ps : list string) : res :=
  match ps with
  | [] => ROk (JObj [])
  | p :: r =>
      match emit_part k dec acc m p, concat_parts k dec acc m r with
      | inl (Some a), ROk (JObj b) => ROk (JObj (a ++ b))
      | inr true, _ | _, RUnsup => RUnsup
      | _, _ => RErr
      end
  end.

Fixpoint norm (j : json) (t : fty) {struct j} : res :=
  match j with
  | JNull =>
      match t with
      | TPtr _ => ROk JNull
      | _ => match head_ty E 6 t with
             | TNamed k => if String.eqb k "SchemaOrBool" then ROk (JBool true)
                           else if mem_str k ["Schema"; "Ref"; "Refable"; "SchemaURL"; "Responses"; "Paths"; "VendorExtensible"] then ROk (JObj [])
                           else if mem_str k custom_kinds && negb (mem_str k ["Response"; "SecurityScheme"; "Operation"; "Items"]) then ROk JNull
                           else (* a struct value left at its zero: what its parts encode to *)
                             concat_parts k (match parts_dec k with [] => [k] | p => p end) [] []
                                          (match parts_enc k with [] => [k] | p => p end)
             | _ => ROk (zero_of E t)
             end
      end
  | _ =>
  match head_ty E 6 t with
  | TStr => match j with JStr _ => ROk j | _ => RErr end
  | TBool => match j with JBool _ => ROk j | _ => RErr end
  | TF64 => match j with JNum _ _ => ROk j | _ => RErr end
  | TInt => match j with JNum m e => if is_int_literal m e then ROk j else RErr | _ => RErr end
  | TAny => ROk (any_of j)
  | TSlice t' =>
      match j with
      | JArr l =>
          match lift_list ((fix go (l : list json) : list res :=
                              match l with [] => [] | x :: r => norm x t' :: go r end) l) with
          | inl (Some vs) => ROk (JArr vs)
          | inl None => RErr
          | inr true => RUnsup
          | inr false => RErr
          end
      | _ => RErr
      end
  | TMap t' =>
      match j with
      | JObj m =>
          (fix go (m : list (string * json)) (acc : list (string * json)) : res :=
             match m with
             | [] => ROk (JObj (sort_members (rev acc)))
             | (k, v) :: r => match norm v t' with
                              | ROk v' => go r ((k, v') :: acc)
                              | RErr => RErr | RUnsup => RUnsup
                              end
             end) m []
      | _ => RErr
      end
  | TNamed k0 =>
      (* a union holding an object is that object decoded as a schema *)
      let k := match j with
               | JObj _ => if String.eqb k0 "SchemaOrBool" || String.eqb k0 "SchemaOrArray" || String.eqb k0 "SchemaOrStringArray"
                           then "Schema" else k0
               | _ => k0
               end in
      if String.eqb k "StringOrArray" then
        match j with
        | JStr _ => ROk j
        | JArr l =>
            if forallb (fun x => match x with JStr _ | JNull => true | _ => false end) l then
              match l with
              | [JStr s] => ROk (JStr s)
              | [JNull] => ROk (JStr "")
              | _ => ROk (JArr (map (fun x => match x with JNull => JStr "" | _ => x end) l))
              end
            else RErr
        | _ => RErr
        end
      else if String.eqb k "SchemaOrBool" then
        match j with
        | JBool false => ROk (JBool false)
        | _ => ROk (JBool true)
        end
      else if String.eqb k "SchemaOrArray" then
        match j with
        | JArr l =>
            match lift_list ((fix go (l : list json) : list res :=
                                match l with [] => [] | x :: r => norm x (TNamed "Schema") :: go r end) l) with
            | inl (Some vs) => (match vs with [] => if G then ROk JNull else ROk (JArr []) | _ => ROk (JArr vs) end)   (* an empty tuple stays an empty tuple (F4); gob turns it into a nil slice *)
            | inl None => RErr
            | inr true => RUnsup
            | inr false => RErr
            end
        | _ => ROk JNull
        end
      else if String.eqb k "SchemaOrStringArray" then
        match j with
        | JArr l =>
            if forallb (fun x => match x with JStr _ | JNull => true | _ => false end) l then
              match l with
              | [] => ROk JNull
              | _ => ROk (JArr (map (fun x => match x with JNull => JStr "" | _ => x end) l))
              end
            else RErr
        | _ => ROk JNull
        end
      else if String.eqb k "SchemaURL" then
        match j with
        | JObj m => match schema_member m with
                    | RefNone => ROk (JObj []) | RefStr s => if String.eqb s "" then ROk (JObj []) else ROk (JObj [("$schema", JStr s)])
                    | RefBad => RErr | RefUnsup => RUnsup end
        | _ => RErr
        end
      else if String.eqb k "Ref" || String.eqb k "Refable" then
        match j with
        | JObj m => match ref_member m with
                    | RefNone => ROk (JObj []) | RefStr s => ROk (JObj [("$ref", JStr s)])
                    | RefBad => RErr | RefUnsup => RUnsup end
        | _ => RErr
        end
      else if String.eqb k "VendorExtensible" then
        match j with JObj m => ROk (JObj (gext m)) | _ => RErr end
      else if String.eqb k "Extensions" then
        match j with JObj m => ROk (any_of j) | _ => RErr end
      else if String.eqb k "SchemaProperties" then
        match j with
        | JObj m =>
            (fix go (m : list (string * json)) (acc : list (string * json)) : res :=
               match m with
               | [] => ROk (JObj (order_items (sort_members (rev acc))))
               | (n, v) :: r => match norm v (TNamed "Schema") with
                                | ROk v' => go r ((n, v') :: acc)
                                | RErr => RErr | RUnsup => RUnsup
                                end
               end) m []
        | _ => RErr
        end
      else if String.eqb k "Schema" then
        match j with
        | JObj m =>
            let fs := fields_of_parts E ["SchemaProps"; "SwaggerSchemaProps"] in
            (fix go (mm : list (string * json)) (acc : list (string * json)) : res :=
               match mm with
               | [] =>
                   let known := map f_json (filter (fun f => negb (f_skip f)) fs) in
                   let rest := filter (fun kv => negb (mem_str (fst kv) known) && negb (String.eqb (fst kv) "$ref")
                                                  && negb (String.eqb (fst kv) "$schema")) m in
                   let exts := sort_members (flat_map (fun kv => if has_x_prefix_ci (fst kv) then [(fst kv, any_of (snd kv))] else []) rest) in
                   let extra := sort_members (flat_map (fun kv => if has_x_prefix_ci (fst kv) then [] else [(fst kv, any_of (snd kv))]) rest) in
                   let refm := match ref_member m with RefStr s => Some [("$ref", JStr s)] | RefUnsup => None | _ => Some [] end in
                   let schm := match assoc "$schema" (rev m) with
                               | Some (JStr s) => if String.eqb s "" then Some [] else
                                                    match parse_url (s2l s) with
                                                    | POk u => Some [("$schema", JStr s)]   (* the text as written is kept *)
                                                    | PErr => Some [] | PUnsupported => None end
                               | _ => Some [] end in
                   match refm, schm with
                   | Some rm, Some sm =>
                       ROk (JObj (emit_fields E (fields_of E "SchemaProps") acc ++ exts ++ rm ++ sm
                                  ++ emit_fields E (fields_of E "SwaggerSchemaProps") acc ++ extra))
                   | _, _ => RUnsup
                   end
               | (n, v) :: r =>
                   match find_field fs n with
                   | None => go r acc
                   | Some f =>
                       match v with
                       | JNull =>   (* null resets pointers, maps, slices and interfaces; it leaves other fields as they are *)
                           match f_ty f with
                           | TPtr _ => go r (remove_key (f_json f) acc)
                           | t => match head_ty E 6 t with
                                  | TSlice _ | TMap _ | TIntMap _ | TAny => go r (remove_key (f_json f) acc)
                                  | _ => go r acc
                                  end
                           end
                       | _ => match norm v (f_ty f) with
                              | ROk v' => if gob_drops (f_ty f) v' then go r (remove_key (f_json f) acc)
                                          else go r (upd (f_json f) v' acc)
                              | RErr => RErr | RUnsup => RUnsup
                              end
                       end
                   end
               end) m []
        | _ => RErr
        end
      else if String.eqb k "Responses" then
        match j with
        | JObj m =>
            (fix go (mm : list (string * json)) (acc : list (string * json)) : res :=
               match mm with
               | [] => ROk (JObj (sort_members (rev acc) ++ gext m))
               | (n, v) :: r =>
                   if String.eqb n "default" then
                     match norm v (TNamed "Response") with
                     | ROk v' => go r (("default", v') :: acc) | RErr => RErr | RUnsup => RUnsup end
                   else if has_x_prefix n then go r acc
                   else match norm v (TNamed "Response") with
                        | ROk v' => match atoi n with
                                    | Some z => go r ((z_string z, v') :: acc)
                                    | None => go r acc end
                        | RErr => RErr | RUnsup => RUnsup
                        end
               end) m []
        | _ => RErr
        end
      else if String.eqb k "Paths" then
        match j with
        | JObj m =>
            (fix go (mm : list (string * json)) (acc : list (string * json)) : res :=
               match mm with
               | [] => ROk (JObj (gext m ++ sort_members (rev acc)))
               | (n, v) :: r =>
                   if has_slash_prefix n then
                     match norm v (TNamed "PathItem") with
                     | ROk v' => go r ((n, v') :: acc) | RErr => RErr | RUnsup => RUnsup end
                   else go r acc
               end) m []
        | _ => RErr
        end
      else
        (* a struct decoded field by field, or a kind made of parts filled from the same bytes *)
        match j with
        | JObj m =>
            let dec := match parts_dec k with [] => [k] | p => p end in
            let enc := match parts_enc k with [] => [k] | p => p end in
            let fs := fields_of_parts E dec in
            (fix go (mm : list (string * json)) (acc : list (string * json)) : res :=
               match mm with
               | [] => concat_parts k dec acc m enc
               | (n, v) :: r =>
                   match find_field fs n with
                   | None => go r acc
                   | Some f =>
                       match v with
                       | JNull =>   (* null resets pointers, maps, slices and interfaces; it leaves other fields as they are *)
                           match f_ty f with
                           | TPtr _ => go r (remove_key (f_json f) acc)
                           | t => match head_ty E 6 t with
                                  | TSlice _ | TMap _ | TIntMap _ | TAny => go r (remove_key (f_json f) acc)
                                  | _ => go r acc
                                  end
                           end
                       | _ => match norm v (f_ty f) with
                              | ROk v' => if gob_drops (f_ty f) v' then go r (remove_key (f_json f) acc)
                                          else go r (upd (f_json f) v' acc)
                              | RErr => RErr | RUnsup => RUnsup
                              end
                       end
                   end
               end) m []
        | _ => RErr
        end
  | TIntMap _ | TFunc | TUnsupported | TPtr _ => RErr
  end
  end.
End Norm.
