(* The union kinds of the codec (a string or a list of strings, a schema or a boolean): decode-then-encode is idempotent
   on them for EVERY JSON value (C07), proved on the model of Codec/Codec.v. *)
From Coq Require Import List String Ascii Bool ZArith.
From Coq Require Import Sorting.Sorted.
From Spec Require Import Base.Json Codec.Types Codec.Gen_Tables Codec.Codec Codec.CodecFacts Codec.PayloadFacts.
Import ListNotations.
Local Open Scope string_scope.

Definition soa := TNamed "StringOrArray".
Definition fixnull (x : json) : json := match x with JNull => JStr "" | _ => x end.
Definition strish (x : json) : bool := match x with JStr _ | JNull => true | _ => false end.

Section Unions.
Variable E : env.
Variable G : bool.
Hypothesis Hsoa : head_ty E 6 soa = soa.

Lemma soa_str s : norm E G (JStr s) soa = ROk (JStr s).
Proof. unfold soa in *. cbn [norm]. rewrite Hsoa. cbn. reflexivity. Qed.

Lemma soa_arr l : norm E G (JArr l) soa =
  if forallb strish l then
    match l with
    | [JStr s] => ROk (JStr s)
    | [JNull] => ROk (JStr "")
    | _ => ROk (JArr (map fixnull l))
    end
  else RErr.
Proof. unfold soa in *. cbn [norm]. rewrite Hsoa. cbn. reflexivity. Qed.

Lemma fixnull_strs l : forallb strish l = true -> forallb strish (map fixnull l) = true /\ map fixnull (map fixnull l) = map fixnull l
  /\ Forall (fun x => exists s, x = JStr s) (map fixnull l).
Proof.
  induction l as [|x r IH]; intros H; cbn [forallb map] in *; [repeat split; constructor|].
  apply andb_true_iff in H. destruct H as [Hx Hr]. destruct (IH Hr) as [H1 [H2 H3]].
  destruct x; try discriminate; cbn [fixnull strish andb]; (split; [exact H1|split; [rewrite H2; reflexivity|constructor; [eexists; reflexivity|exact H3]]]).
Qed.

(* a string or a list of strings: the encoding is a fixed point *)
Theorem soa_idem j v : norm E G j soa = ROk v -> norm E G v soa = ROk v.
Proof.
  destruct j as [|b|m e|s|l|m]; intros H.
  - (* null *) unfold soa in *. cbn [norm] in H. rewrite Hsoa in H. cbn in H. inversion H; subst. cbn [norm]. rewrite Hsoa. cbn. reflexivity.
  - unfold soa in *. cbn [norm] in H. rewrite Hsoa in H. cbn in H. discriminate.
  - unfold soa in *. cbn [norm] in H. rewrite Hsoa in H. cbn in H. discriminate.
  - rewrite soa_str in H. inversion H; subst. apply soa_str.
  - rewrite soa_arr in H. destruct (forallb strish l) eqn:Hall; [|discriminate].
    destruct (fixnull_strs l Hall) as [H1 [H2 H3]].
    assert (Hgen : norm E G (JArr (map fixnull l)) soa =
                   match map fixnull l with [JStr s] => ROk (JStr s) | _ => ROk (JArr (map fixnull l)) end).
    { rewrite soa_arr. rewrite H1. rewrite H2.
      destruct (map fixnull l) as [|x [|y r]] eqn:El; try reflexivity.
      inversion H3 as [|? ? [s ->] _]; subst. reflexivity. }
    destruct l as [|x [|y r]].
    + inversion H; subst. rewrite soa_arr. reflexivity.
    + destruct x; cbn [strish forallb andb] in Hall; try discriminate.
      * inversion H; subst. apply soa_str.
      * inversion H; subst. apply soa_str.
    + assert (Hv : v = JArr (map fixnull (x :: y :: r))) by (destruct x; inversion H; reflexivity).
      subst v. rewrite Hgen. cbn [map]. destruct (fixnull x); reflexivity.
  - unfold soa in *. cbn [norm] in H. rewrite Hsoa in H. cbn in H. discriminate.
Qed.

Definition sob := TNamed "SchemaOrBool".
Definition sosa := TNamed "SchemaOrStringArray".
Hypothesis Hsob : head_ty E 6 sob = sob.
Hypothesis Hsosa : head_ty E 6 sosa = sosa.

(* a schema or a boolean, when it is not a schema: `false` stays false, everything else is `true` *)
Theorem sob_idem j v : (forall m, j <> JObj m) -> norm E G j sob = ROk v -> norm E G v sob = ROk v.
Proof.
  intros Hno H. assert (Hb : exists b, v = JBool b).
  { destruct j as [|b|m e|s|l|m]; try (exfalso; apply (Hno m); reflexivity);
      unfold sob in *; cbn [norm] in H; rewrite ?Hsob in H; cbn in H; try (destruct b); inversion H; eexists; reflexivity. }
  destruct Hb as [b ->]. unfold sob in *. cbn [norm]. rewrite Hsob. cbn. destruct b; reflexivity.
Qed.

(* a schema or a list of property names (dependencies), when it is not a schema *)
Lemma sosa_arr l : norm E G (JArr l) sosa =
  if forallb strish l then match l with [] => ROk JNull | _ => ROk (JArr (map fixnull l)) end else RErr.
Proof. unfold sosa in *. cbn [norm]. rewrite Hsosa. cbn. reflexivity. Qed.
Lemma sosa_null : norm E G JNull sosa = ROk JNull.
Proof. unfold sosa in *. cbn [norm]. rewrite Hsosa. cbn. reflexivity. Qed.

Theorem sosa_idem j v : (forall m, j <> JObj m) -> norm E G j sosa = ROk v -> norm E G v sosa = ROk v.
Proof.
  intros Hno H. destruct j as [|b|m e|s|l|m]; try (exfalso; apply (Hno m); reflexivity).
  - rewrite sosa_null in H. inversion H; subst. apply sosa_null.
  - unfold sosa in *. cbn [norm] in H. rewrite Hsosa in H. cbn in H. inversion H; subst. apply sosa_null.
  - unfold sosa in *. cbn [norm] in H. rewrite Hsosa in H. cbn in H. inversion H; subst. apply sosa_null.
  - unfold sosa in *. cbn [norm] in H. rewrite Hsosa in H. cbn in H. inversion H; subst. apply sosa_null.
  - rewrite sosa_arr in H. destruct (forallb strish l) eqn:Hall; [|discriminate].
    destruct (fixnull_strs l Hall) as [H1 [H2 H3]].
    destruct l as [|x r]; [inversion H; subst; apply sosa_null|].
    assert (Hv : v = JArr (map fixnull (x :: r))) by (inversion H; reflexivity).
    rewrite Hv. rewrite sosa_arr, H1, H2. destruct (map fixnull (x :: r)) eqn:Em; [discriminate Em|reflexivity].
Qed.
End Unions.

Theorem soa_idem_gen : forall G j v, norm gen_env G j soa = ROk v -> norm gen_env G v soa = ROk v.
Proof. intros G. apply soa_idem. vm_compute. reflexivity. Qed.
Theorem sob_idem_gen : forall G j v, (forall m, j <> JObj m) -> norm gen_env G j sob = ROk v -> norm gen_env G v sob = ROk v.
Proof. intros G. apply sob_idem. vm_compute. reflexivity. Qed.
Theorem sosa_idem_gen : forall G j v, (forall m, j <> JObj m) -> norm gen_env G j sosa = ROk v -> norm gen_env G v sosa = ROk v.
Proof. intros G. apply sosa_idem. vm_compute. reflexivity. Qed.

(* ---------- field types built from scalars, payloads and string lists by slices and maps ---------- *)
Lemma lift_ok : forall rs vs, lift_list rs = inl (Some vs) -> Forall2 (fun r v => r = ROk v) rs vs.
Proof.
  induction rs as [|r rs IH]; intros vs H; cbn [lift_list fold_right] in H.
  - inversion H. constructor.
  - fold (lift_list rs) in H. destruct r as [v| |]; destruct (lift_list rs) as [[ws|]|b] eqn:El; try discriminate; try (destruct b; discriminate).
    inversion H; subst. constructor; [reflexivity|apply IH; reflexivity].
Qed.
Lemma lift_all : forall rs vs, Forall2 (fun r v => r = ROk v) rs vs -> lift_list rs = inl (Some vs).
Proof.
  intros rs vs H. induction H as [|r v rs vs Hr _ IH]; [reflexivity|]. subst r. cbn [lift_list fold_right]. fold (lift_list rs). rewrite IH. reflexivity.
Qed.

Section Simple.
Variable E : env.
Hypothesis Hsoa : head_ty E 6 soa = soa.
Definition idem_at (t : fty) : Prop := forall j v, norm E false j t = ROk v -> norm E false v t = ROk v.

Lemma idem_str : idem_at TStr.
Proof. intros j v H. destruct j; cbn in H; try discriminate; inversion H; subst; reflexivity. Qed.
Lemma idem_bool : idem_at TBool.
Proof. intros j v H. destruct j; cbn in H; try discriminate; inversion H; subst; reflexivity. Qed.
Lemma idem_f64 : idem_at TF64.
Proof. intros j v H. destruct j; cbn in H; try discriminate; inversion H; subst; reflexivity. Qed.
Lemma idem_int : idem_at TInt.
Proof.
  intros j v H. destruct j as [|b|m e|s|l|mm]; cbn in H; try discriminate; try (inversion H; subst; reflexivity).
  cbn [norm head_ty]. destruct (is_int_literal m e) eqn:Ei; [|discriminate]. inversion H; subst. cbn. rewrite Ei. reflexivity.
Qed.
Lemma idem_any : idem_at TAny.
Proof. intros j v H. exact (payload_fixed_point E j v H). Qed.

Lemma norm_slice t l : norm E false (JArr l) (TSlice t) =
  match lift_list (map (fun x => norm E false x t) l) with
  | inl (Some vs) => ROk (JArr vs) | inl None => RErr | inr true => RUnsup | inr false => RErr end.
Proof.
  cbn [norm head_ty]. replace ((fix go (l0 : list json) : list res := match l0 with [] => [] | x :: r => norm E false x t :: go r end) l)
    with (map (fun x => norm E false x t) l); [reflexivity|]. induction l as [|x r IH]; [reflexivity|]. cbn [map]. rewrite IH. reflexivity.
Qed.

Lemma idem_slice t : idem_at t -> idem_at (TSlice t).
Proof.
  intros Ht j v H. destruct j as [|b|m e|s|l|mm]; try (cbn in H; discriminate).
  - cbn in H. inversion H; subst. reflexivity.
  - rewrite norm_slice in H. destruct (lift_list (map (fun x => norm E false x t) l)) as [[vs|]|b] eqn:El; try discriminate; try (destruct b; discriminate).
    inversion H; subst. rewrite norm_slice. apply lift_ok in El.
    assert (Hvs : Forall2 (fun r v => r = ROk v) (map (fun x => norm E false x t) vs) vs).
    { clear H. revert vs El. induction l as [|x l' IH]; intros vs El; cbn [map] in El; inversion El as [|? w ? ws Hx Hr]; subst; [constructor|].
      cbn [map]. constructor; [exact (Ht x w Hx)|exact (IH ws Hr)]. }
    rewrite (lift_all _ _ Hvs). reflexivity.
Qed.

(* maps: the values one by one, the members sorted by name, the last of several members with one name wins *)
Definition map_go (t : fty) :=
  fix go (m : list (string * json)) (acc : list (string * json)) : res :=
     match m with
     | [] => ROk (JObj (sort_members (rev acc)))
     | (k, v) :: r => match norm E false v t with ROk v' => go r ((k, v') :: acc) | RErr => RErr | RUnsup => RUnsup end
     end.
Lemma map_go_ok t : forall m acc w, map_go t m acc = ROk w ->
  exists vs, Forall2 (fun kv v => norm E false (snd kv) t = ROk v) m vs /\ w = JObj (sort_members (rev acc ++ combine (map fst m) vs)).
Proof.
  induction m as [|[k v] r IH]; intros acc w H; cbn [map_go] in H.
  - inversion H; subst. exists []. split; [constructor|]. cbn. rewrite app_nil_r. reflexivity.
  - destruct (norm E false v t) as [v'| |] eqn:Ev; try discriminate. destruct (IH _ _ H) as [vs [Hf ->]].
    exists (v' :: vs). split; [constructor; [exact Ev|exact Hf]|]. cbn [rev map fst combine]. rewrite <- app_assoc. reflexivity.
Qed.
Lemma map_go_all t : forall m vs acc, Forall2 (fun kv v => norm E false (snd kv) t = ROk v) m vs ->
  map_go t m acc = ROk (JObj (sort_members (rev acc ++ combine (map fst m) vs))).
Proof.
  intros m vs acc H. revert acc. induction H as [|[k v] v' m vs Hv _ IH]; intros acc; cbn [map_go].
  - cbn. rewrite app_nil_r. reflexivity.
  - cbn [snd] in Hv. rewrite Hv. rewrite IH. cbn [rev map fst combine]. rewrite <- app_assoc. reflexivity.
Qed.

Lemma combine_fst_snd {A B} (l : list (A * B)) : combine (map fst l) (map snd l) = l.
Proof. induction l as [|[a b] r IH]; [reflexivity|]. cbn [map fst snd combine]. rewrite IH. reflexivity. Qed.

Lemma idem_map t : idem_at t -> idem_at (TMap t).
Proof.
  intros Ht j v H. destruct j as [|b|m0 e|s|l|m]; try (cbn in H; discriminate).
  - cbn in H. inversion H; subst. reflexivity.
  - cbn [norm head_ty] in H. change (map_go t m [] = ROk v) in H.
    destruct (map_go_ok t m [] v H) as [vs [Hf ->]]. cbn [rev app]. set (m1 := combine (map fst m) vs).
    cbn [norm head_ty]. change (map_go t (sort_members m1) [] = ROk (JObj (sort_members m1))).
    assert (Hfix : forall k x, In (k, x) m1 -> norm E false x t = ROk x).
    { unfold m1. clear H. induction Hf as [|[k0 v0] w m' ws Hx _ IH]; intros k x Hin; [destruct Hin|].
      cbn [map fst combine] in Hin. cbn [snd] in Hx. destruct Hin as [Hin|Hin]; [inversion Hin; subst; exact (Ht v0 x Hx)|exact (IH k x Hin)]. }
    assert (Hall : Forall2 (fun kv v => norm E false (snd kv) t = ROk v) (sort_members m1) (map snd (sort_members m1))).
    { assert (Hs : forall kv, In kv (sort_members m1) -> norm E false (snd kv) t = ROk (snd kv)).
      { intros [k x] Hin. apply (Hfix k x). apply sort_members_In. exact Hin. }
      induction (sort_members m1) as [|kv r IHr]; [constructor|]. cbn [map]. constructor; [apply Hs; left; reflexivity|apply IHr; intros kv' Hin; apply Hs; right; exact Hin]. }
    rewrite (map_go_all t _ _ [] Hall). cbn [rev app]. f_equal. f_equal.
    rewrite combine_fst_snd. apply sort_members_sorted_id. apply sort_members_is_sorted.
Qed.

Inductive simple_ty : fty -> Prop :=
| st_str : simple_ty TStr
| st_bool : simple_ty TBool
| st_f64 : simple_ty TF64
| st_int : simple_ty TInt
| st_any : simple_ty TAny
| st_soa : simple_ty soa
| st_slice t : simple_ty t -> simple_ty (TSlice t)
| st_map t : simple_ty t -> simple_ty (TMap t).

(* every field of such a type is normalised idempotently, whatever JSON value it is given *)
Theorem simple_idem t : simple_ty t -> idem_at t.
Proof.
  intros H. induction H.
  - apply idem_str. - apply idem_bool. - apply idem_f64. - apply idem_int. - apply idem_any.
  - intros j v. apply (soa_idem E false Hsoa).
  - apply idem_slice. exact IHsimple_ty.
  - apply idem_map. exact IHsimple_ty.
Qed.
End Simple.

(* a boolean reading of simple_ty, to count the fields of the regenerated tables it covers *)
Fixpoint simple_tyb (t : fty) : bool :=
  match t with
  | TStr | TBool | TF64 | TInt | TAny => true
  | TSlice t' | TMap t' => simple_tyb t'
  | TNamed k => String.eqb k "StringOrArray"
  | _ => false
  end.
Lemma simple_tyb_sound t : simple_tyb t = true -> simple_ty t.
Proof.
  induction t; cbn [simple_tyb]; intros H; try discriminate; try constructor; auto.
  apply String.eqb_eq in H. subst k. apply st_soa.
Qed.
Definition all_fields (E : env) : list field := flat_map snd (e_structs E).
Definition simple_fields (E : env) : list field := filter (fun f => negb (f_skip f) && simple_tyb (f_ty f)) (all_fields E).

Theorem simple_idem_gen : forall t, simple_ty t -> forall j v, norm gen_env false j t = ROk v -> norm gen_env false v t = ROk v.
Proof. intros t Ht. apply (simple_idem gen_env); [vm_compute; reflexivity|exact Ht]. Qed.

(* ---------- ... and a value in normal form is returned as it is (C01) ---------- *)
Fixpoint nf_at (t : fty) (j : json) {struct t} : Prop :=
  match t with
  | TStr => exists s, j = JStr s
  | TBool => exists b, j = JBool b
  | TF64 => exists m e, j = JNum m e
  | TInt => exists m e, j = JNum m e /\ is_int_literal m e = true
  | TAny => payload_nf j /\ j <> JNull
  | TSlice t' => exists l, j = JArr l /\ Forall (nf_at t') l
  | TMap t' => exists m, j = JObj m /\ StronglySorted mlt m /\ Forall (fun kv => nf_at t' (snd kv)) m
  | TNamed k => k = "StringOrArray" /\ ((exists s, j = JStr s) \/ (exists x y r, j = JArr (x :: y :: r) /\ Forall (fun z => exists s, z = JStr s) (x :: y :: r)))
  | _ => False
  end.

Section SimpleNF.
Variable E : env.
Hypothesis Hsoa : head_ty E 6 soa = soa.

Theorem simple_nf_id : forall t, simple_ty t -> forall j, nf_at t j -> norm E false j t = ROk j.
Proof.
  intros t Ht. induction Ht; intros j Hnf.
  - destruct Hnf as [s ->]. reflexivity.
  - destruct Hnf as [b ->]. reflexivity.
  - destruct Hnf as [m [e ->]]. reflexivity.
  - destruct Hnf as [m [e [-> Hi]]]. cbn [norm head_ty]. rewrite Hi. reflexivity.
  - destruct Hnf as [Hp Hn]. rewrite norm_payload. rewrite (norm_any_nf_id j Hp). reflexivity.
  - destruct Hnf as [_ [[s ->]|[x [y [r [-> Hall]]]]]].
    + apply (soa_str E false Hsoa).
    + rewrite (soa_arr E false Hsoa).
      assert (H1 : forallb strish (x :: y :: r) = true).
      { apply forallb_forall. intros z Hz. rewrite Forall_forall in Hall. destruct (Hall z Hz) as [s ->]. reflexivity. }
      rewrite H1.
      assert (Hm : forall l, Forall (fun z => exists s, z = JStr s) l -> map fixnull l = l).
      { clear. induction l as [|z zs IH]; intros H; [reflexivity|]. inversion H as [|? ? [s ->] Hr]; subst. cbn [map fixnull]. rewrite (IH Hr). reflexivity. }
      rewrite (Hm _ Hall). inversion Hall as [|? ? [s ->] _]; subst. reflexivity.
  - destruct Hnf as [l [-> Hall]]. rewrite norm_slice.
    assert (Hl : lift_list (map (fun x => norm E false x t) l) = inl (Some l)).
    { apply lift_all. induction Hall as [|x xs Hx _ IH]; [constructor|]. cbn [map]. constructor; [apply IHHt; exact Hx|exact IH]. }
    rewrite Hl. reflexivity.
  - destruct Hnf as [m [-> [Hs Hall]]]. cbn [norm head_ty]. change (map_go E t m [] = ROk (JObj m)).
    assert (Hf : Forall2 (fun kv v => norm E false (snd kv) t = ROk v) m (map snd m)).
    { induction Hall as [|kv r Hkv _ IH]; [constructor|]. cbn [map]. constructor; [apply IHHt; exact Hkv|].
      apply IH. inversion Hs; assumption. }
    rewrite (map_go_all E t m (map snd m) [] Hf). cbn [rev app]. rewrite combine_fst_snd. rewrite (sort_members_sorted_id m Hs). reflexivity.
Qed.
End SimpleNF.

Theorem simple_nf_id_gen : forall t, simple_ty t -> forall j, nf_at t j -> norm gen_env false j t = ROk j.
Proof. intros t Ht. apply (simple_nf_id gen_env); [vm_compute; reflexivity|exact Ht]. Qed.

(* ---------- gob transport (C14): on these field types it changes nothing, provided no payload holds an empty array ---------- *)
Fixpoint gob_safe (t : fty) (j : json) {struct t} : Prop :=
  match t with
  | TAny => no_empty_array (norm_any j) = true
  | TSlice t' => match j with JArr l => Forall (gob_safe t') l | _ => True end
  | TMap t' => match j with JObj m => Forall (fun kv => gob_safe t' (snd kv)) m | _ => True end
  | _ => True
  end.

Section SimpleGob.
Variable E : env.
Hypothesis Hsoa : head_ty E 6 soa = soa.

Lemma norm_slice_g G t l : norm E G (JArr l) (TSlice t) =
  match lift_list (map (fun x => norm E G x t) l) with
  | inl (Some vs) => ROk (JArr vs) | inl None => RErr | inr true => RUnsup | inr false => RErr end.
Proof.
  cbn [norm head_ty]. replace ((fix go (l0 : list json) : list res := match l0 with [] => [] | x :: r => norm E G x t :: go r end) l)
    with (map (fun x => norm E G x t) l); [reflexivity|]. induction l as [|x r IH]; [reflexivity|]. cbn [map]. rewrite IH. reflexivity.
Qed.

Theorem simple_gob_id : forall t, simple_ty t -> forall j, gob_safe t j -> norm E true j t = norm E false j t.
Proof.
  intros t Ht. induction Ht; intros j Hs.
  - destruct j; reflexivity.
  - destruct j; reflexivity.
  - destruct j; reflexivity.
  - destruct j; reflexivity.
  - (* interface{} *) cbn [gob_safe] in Hs. destruct j; try reflexivity; cbn [norm head_ty any_of]; rewrite (gob_any_id _ Hs); reflexivity.
  - (* StringOrArray *) unfold soa in *. destruct j as [|b|m e|s|l|m]; cbn [norm]; rewrite ?Hsoa; cbn; reflexivity.
  - (* slices *) destruct j as [|b|m e|s|l|m]; try reflexivity. rewrite !norm_slice_g. cbn [gob_safe] in Hs.
    replace (map (fun x => norm E true x t) l) with (map (fun x => norm E false x t) l); [reflexivity|].
    induction Hs as [|x xs Hx _ IH]; [reflexivity|]. cbn [map]. rewrite IH. rewrite (IHHt x Hx). reflexivity.
  - (* maps *) destruct j as [|b|m0 e|s|l|m]; try reflexivity. cbn [gob_safe] in Hs. cbn [norm head_ty].
    generalize (@nil (string * json)) as acc. induction Hs as [|[k v] r Hv _ IH]; intros acc; [reflexivity|].
    cbn [snd] in Hv. rewrite (IHHt v Hv). destruct (norm E false v t); try reflexivity. apply IH.
Qed.
End SimpleGob.

Theorem simple_gob_id_gen : forall t, simple_ty t -> forall j, gob_safe t j -> norm gen_env true j t = norm gen_env false j t.
Proof. intros t Ht. apply (simple_gob_id gen_env); [vm_compute; reflexivity|exact Ht]. Qed.
