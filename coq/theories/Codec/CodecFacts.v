(* Facts about the codec model: obligations over the generated tables (re-checked whenever a struct,
   a tag or a (Un)MarshalJSON body changes) and unbounded lemmas about the generic components. *)
From Coq Require Import List String Ascii Bool Arith ZArith Lia Permutation Sorted.
From Spec Require Import Base.Json Base.JsonFacts Base.Url Base.SortFacts Codec.Types Codec.Gen_Tables Codec.Codec.
Import ListNotations.
Local Open Scope string_scope.

Definition gen_env : env := mkEnv gen_structs gen_aliases gen_marshal_parts gen_unmarshal_parts.

(* ---------- names a kind can decode / encode, from the tables ---------- *)
Definition part_base (p : string) : string :=   (* "?A|?" (a conditional part) stands for its first alternative *)
  match s2l p with
  | "?"%char :: r => l2s (fst (cut "|"%char r))
  | _ => p
  end.

Definition part_names (E : env) (p : string) : list string :=
  let p := part_base p in
  if String.eqb p "VendorExtensible" then ["^x-"]
  else if String.eqb p "Refable" || String.eqb p "Ref" then ["$ref"]
  else if String.eqb p "Schema" then ["$schema"]      (* the SchemaURL field of a schema *)
  else if String.eqb p "ExtraProps" then []
  else map f_json (filter (fun f => negb (f_skip f)) (fields_of E p)).

Definition decodable (E : env) (k : string) : list string :=
  if String.eqb k "Schema" then flat_map (part_names E) ["SchemaProps"; "SwaggerSchemaProps"; "VendorExtensible"; "Ref"; "Schema"]
  else flat_map (part_names E) (match parts_dec E k with [] => [k] | p => p end).
Definition encodable (E : env) (k : string) : list string :=
  flat_map (part_names E) (match parts_enc E k with [] => [k] | p => p end).

Definition incl_str (a b : list string) : bool := forallb (fun x => mem_str x b) a.

(* which definitions of the two shipped meta-schemas describe which kind (the specification part
   of the statement, written by hand) *)
Definition swagger_defs_of : list (string * list string) :=
  [("Swagger", ["#"]); ("Info", ["info"]); ("ContactInfo", ["contact"]); ("License", ["license"]); ("Tag", ["tag"]);
   ("Operation", ["operation"]); ("PathItem", ["pathItem"]); ("Response", ["response"]); ("Header", ["header"]);
   ("Items", ["primitivesItems"]);
   ("Parameter", ["bodyParameter"; "queryParameterSubSchema"; "headerParameterSubSchema"; "pathParameterSubSchema"; "formDataParameterSubSchema"]);
   ("Schema", ["schema"]);
   ("SecurityScheme", ["basicAuthenticationSecurity"; "apiKeySecurity"; "oauth2ImplicitSecurity"; "oauth2PasswordSecurity";
                       "oauth2ApplicationSecurity"; "oauth2AccessCodeSecurity"])].

Definition keywords_of (k : string) : list string :=
  flat_map (fun d => match assoc d gen_swagger_schema_keywords with Some l => l | None => [] end)
           (match assoc k swagger_defs_of with Some l => l | None => [] end)
  ++ (if String.eqb k "Schema" then match assoc "#" gen_draft4_keywords with Some l => l | None => [] end else [])
  ++ (if String.eqb k "Swagger" then ["^x-"] else []).

Definition coverage_ok (E : env) : bool :=
  forallb (fun kd => let k := fst kd in
                     incl_str (keywords_of k) (decodable E k) && incl_str (keywords_of k) (encodable E k))
          swagger_defs_of.

Lemma coverage_gen : coverage_ok gen_env = true.
Proof. vm_compute. reflexivity. Qed.

Theorem coverage : forall k, In k (map fst swagger_defs_of) -> forall kw, In kw (keywords_of k) ->
  mem_str kw (decodable gen_env k) = true /\ mem_str kw (encodable gen_env k) = true.
Proof.
  intros k Hk kw Hkw. pose proof coverage_gen as H. unfold coverage_ok in H. rewrite forallb_forall in H.
  apply in_map_iff in Hk. destruct Hk as [[k' d] [Ek Hin]]. simpl in Ek. subst k'.
  specialize (H (k, d) Hin). simpl in H. apply andb_true_iff in H. destruct H as [H1 H2].
  unfold incl_str in *. rewrite forallb_forall in H1, H2. split; [apply H1|apply H2]; exact Hkw.
Qed.

(* every kind the property lists carries vendor extensions both ways *)
Definition ext_kinds : list string :=
  ["Swagger"; "Info"; "ContactInfo"; "License"; "Tag"; "Operation"; "PathItem"; "Paths"; "Response"; "Responses"; "Header"; "Items";
   "Parameter"; "Schema"; "SecurityScheme"].
Definition ext_ok (E : env) : bool :=
  forallb (fun k => (mem_str "^x-" (decodable E k) || String.eqb k "Paths" || String.eqb k "Responses")
                    && mem_str "^x-" (encodable E k)) ext_kinds.
Lemma ext_gen : ext_ok gen_env = true.
Proof. vm_compute. reflexivity. Qed.

(* no two parts of a kind emit the same member name; no field name looks like an extension *)
Definition names_ok (E : env) : bool :=
  forallb (fun kp => let names := flat_map (part_names E) (snd kp) in
                     nodup_str names && forallb (fun n => negb (has_x_prefix_ci n) || String.eqb n "^x-") names)
          (e_marshal_parts E).
Lemma names_gen : names_ok gen_env = true.
Proof. vm_compute. reflexivity. Qed.

(* what is decoded is encoded and vice versa (same set of parts) *)
Definition same_set (a b : list string) : bool := incl_str a b && incl_str b a.
Definition symmetric_ok (E : env) : bool :=
  forallb (fun kp => let k := fst kp in
                     if mem_str k ["Paths"; "Responses"; "Schema"] then true
                     else same_set (map part_base (snd kp)) (parts_dec E k))
          (e_marshal_parts E).
Lemma symmetric_gen : symmetric_ok gen_env = true.
Proof. vm_compute. reflexivity. Qed.

(* the hand-transcribed kinds still have the part structure they were transcribed from *)
Fixpoint strs_eqb (x y : list string) : bool :=
  match x, y with
  | [], [] => true
  | p :: x', q :: y' => String.eqb p q && strs_eqb x' y'
  | _, _ => false
  end.
Definition transcription_ok (E : env) : bool :=
  match assoc "Schema" (e_marshal_parts E), assoc "Response" (e_marshal_parts E), assoc "SecurityScheme" (e_marshal_parts E),
        assoc "Paths" (e_marshal_parts E), assoc "Responses" (e_marshal_parts E) with
  | Some s, Some r, Some ss, Some p, Some rs =>
      strs_eqb s ["SchemaProps"; "VendorExtensible"; "Ref"; "Schema"; "SwaggerSchemaProps"; "ExtraProps"]
      && strs_eqb r ["?ResponseProps|?"; "Refable"; "VendorExtensible"]
      && strs_eqb ss ["?SecuritySchemeProps|?"; "VendorExtensible"]
      && strs_eqb p ["VendorExtensible"; "?"]
      && strs_eqb rs ["ResponsesProps"; "VendorExtensible"]
  | _, _, _, _, _ => false
  end.
Lemma transcription_gen : transcription_ok gen_env = true.
Proof. vm_compute. reflexivity. Qed.

(* ---------- bytewise string order ---------- *)
Lemma str_ltb_irrefl a : str_ltb a a = false.
Proof. induction a as [|c a IH]; simpl; [reflexivity|]. rewrite Nat.ltb_irrefl. exact IH. Qed.

Lemma str_ltb_trans : forall a b c, str_ltb a b = true -> str_ltb b c = true -> str_ltb a c = true.
Proof.
  induction a as [|x a IH]; intros [|y b] [|z c] H1 H2; simpl in *; try discriminate; try reflexivity.
  destruct (Nat.ltb (nat_of_ascii x) (nat_of_ascii y)) eqn:E1.
  - destruct (Nat.ltb (nat_of_ascii y) (nat_of_ascii z)) eqn:E2.
    + apply Nat.ltb_lt in E1. apply Nat.ltb_lt in E2.
      replace (Nat.ltb (nat_of_ascii x) (nat_of_ascii z)) with true by (symmetry; apply Nat.ltb_lt; lia). reflexivity.
    + destruct (Nat.ltb (nat_of_ascii z) (nat_of_ascii y)) eqn:E3; [discriminate|].
      apply Nat.ltb_lt in E1. apply Nat.ltb_ge in E2. apply Nat.ltb_ge in E3.
      replace (Nat.ltb (nat_of_ascii x) (nat_of_ascii z)) with true by (symmetry; apply Nat.ltb_lt; lia). reflexivity.
  - destruct (Nat.ltb (nat_of_ascii y) (nat_of_ascii x)) eqn:E1'; [discriminate|].
    apply Nat.ltb_ge in E1. apply Nat.ltb_ge in E1'.
    assert (Exy : nat_of_ascii x = nat_of_ascii y) by lia. rewrite Exy.
    destruct (Nat.ltb (nat_of_ascii y) (nat_of_ascii z)); [reflexivity|].
    destruct (Nat.ltb (nat_of_ascii z) (nat_of_ascii y)); [discriminate|].
    eapply IH; eassumption.
Qed.

Lemma str_ltb_total : forall a b, a <> b -> str_ltb a b = true \/ str_ltb b a = true.
Proof.
  induction a as [|x a IH]; intros [|y b] Hne; simpl; auto; try (exfalso; apply Hne; reflexivity).
  destruct (Nat.ltb (nat_of_ascii x) (nat_of_ascii y)) eqn:E1; [left; reflexivity|].
  destruct (Nat.ltb (nat_of_ascii y) (nat_of_ascii x)) eqn:E2; [right; reflexivity|].
  apply Nat.ltb_ge in E1. apply Nat.ltb_ge in E2.
  assert (Exy : x = y).
  { rewrite <- (ascii_nat_embedding x), <- (ascii_nat_embedding y). f_equal. lia. }
  subst y. apply IH. intro E. apply Hne. rewrite E. reflexivity.
Qed.

(* ---------- the order of schema properties: (has x-order, x-order, name) ---------- *)
Lemma item_less_irrefl a : item_less a a = false.
Proof.
  unfold item_less. destruct (get_order (snd a)); [rewrite Z.eqb_refl|]; apply str_ltb_irrefl.
Qed.

Lemma item_less_trans a b c : item_less a b = true -> item_less b c = true -> item_less a c = true.
Proof.
  unfold item_less.
  destruct (get_order (snd a)) as [x|], (get_order (snd b)) as [y|], (get_order (snd c)) as [z|];
    try discriminate; try reflexivity; intros H1 H2; try (eapply str_ltb_trans; eassumption).
  destruct (Z.eqb x y) eqn:E1; destruct (Z.eqb y z) eqn:E2.
  - apply Z.eqb_eq in E1. apply Z.eqb_eq in E2. subst. rewrite Z.eqb_refl. eapply str_ltb_trans; eassumption.
  - apply Z.eqb_eq in E1. subst. rewrite E2. exact H2.
  - apply Z.eqb_eq in E2. subst. rewrite E1. exact H1.
  - apply Z.ltb_lt in H1. apply Z.ltb_lt in H2.
    replace (Z.eqb x z) with false by (symmetry; apply Z.eqb_neq; lia). apply Z.ltb_lt. lia.
Qed.

Lemma item_less_total a b : fst a <> fst b -> item_less a b = true \/ item_less b a = true.
Proof.
  intros Hne. unfold item_less.
  destruct (get_order (snd a)) as [x|], (get_order (snd b)) as [y|]; auto.
  - destruct (Z.eqb x y) eqn:E.
    + apply Z.eqb_eq in E. subst. rewrite Z.eqb_refl. apply str_ltb_total. exact Hne.
    + rewrite Z.eqb_sym, E. apply Z.eqb_neq in E.
      destruct (Z.ltb x y) eqn:L; [left; reflexivity|right]. apply Z.ltb_ge in L. apply Z.ltb_lt. lia.
  - apply str_ltb_total. exact Hne.
Qed.

Lemma order_items_is_isort l : order_items l = isort _ item_less l.
Proof. unfold order_items, isort. induction l as [|x r IH]; simpl; [reflexivity|]. rewrite IH.
  generalize (fold_right (insert (string * json) item_less) [] r). intros s.
  induction s as [|y s IHs]; simpl; [reflexivity|]. destruct (item_less y x); [rewrite IHs|]; reflexivity.
Qed.

Lemma names_distinct (l : list (string * json)) a b :
  NoDup (map fst l) -> In a l -> In b l -> a <> b -> fst a <> fst b.
Proof.
  induction l as [|x r IH]; intros Hn Ha Hb Hab E; [destruct Ha|].
  simpl in Hn. inversion Hn as [|? ? Hx Hr]; subst.
  destruct Ha as [<-|Ha], Hb as [<-|Hb].
  - apply Hab. reflexivity.
  - apply Hx. rewrite E. apply in_map. exact Hb.
  - apply Hx. rewrite <- E. apply in_map. exact Ha.
  - exact (IH Hr Ha Hb Hab E).
Qed.

(* properties come out as a permutation of what the map holds, sorted by (x-order, name) ... *)
Theorem order_items_sorted l : NoDup (map fst l) ->
  Permutation l (order_items l) /\ StronglySorted (fun a b => item_less a b = true) (order_items l).
Proof.
  intros Hn. rewrite order_items_is_isort. split; [apply isort_perm|].
  assert (Hnd : NoDup l) by (eapply NoDup_map_inv; exact Hn).
  apply (isort_sorted _ item_less (fun x => In x l)).
  - intros a b c _ _ _. apply item_less_trans.
  - intros a b Ha Hb Hab. apply item_less_total. eapply names_distinct; eassumption.
  - apply Forall_forall. auto.
  - exact Hnd.
Qed.

(* ... and that order is the same whatever order the map is iterated in *)
Theorem order_items_deterministic l l' : NoDup (map fst l) -> Permutation l l' -> order_items l = order_items l'.
Proof.
  intros Hn Hp. rewrite !order_items_is_isort.
  assert (Hnd : NoDup l) by (eapply NoDup_map_inv; exact Hn).
  apply (isort_order_independent _ item_less (fun x => In x l)).
  - intros a b c _ _ _. apply item_less_trans.
  - intros a _ H. unfold ltP in H. rewrite item_less_irrefl in H. discriminate.
  - intros a b Ha Hb Hab. apply item_less_total. eapply names_distinct; eassumption.
  - apply Forall_forall. auto.
  - exact Hnd.
  - exact Hp.
Qed.

(* ---------- maps are emitted with sorted keys: a function of the map, not of its iteration order ---------- *)
Definition mlt (a b : string * json) : Prop := str_ltb (fst a) (fst b) = true.

Lemma insert_member_fresh k v : forall l, ~ In k (map fst l) -> StronglySorted mlt l ->
  StronglySorted mlt (insert_member k v l) /\ (forall x, In x (insert_member k v l) <-> x = (k, v) \/ In x l).
Proof.
  induction l as [|[k' v'] r IH]; intros Hk Hs; simpl.
  - split; [repeat constructor|]. intros x. split; [intros [H|[]]; left; auto|intros [H|[]]; left; auto].
  - simpl in Hk.
    assert (Hne : k <> k') by (intro E; apply Hk; left; auto).
    assert (Hr : ~ In k (map fst r)) by (intro H; apply Hk; right; exact H).
    replace (String.eqb k k') with false by (symmetry; apply String.eqb_neq; exact Hne).
    inversion Hs as [|? ? Hsr Hall]; subst.
    destruct (str_ltb k k') eqn:L.
    + split.
      * constructor; [exact Hs|]. constructor; [exact L|].
        rewrite Forall_forall in *. intros z Hz. unfold mlt in *. simpl.
        eapply str_ltb_trans; [exact L|apply (Hall z Hz)].
      * intros x. simpl. intuition (subst; auto).
    + destruct (IH Hr Hsr) as [IH1 IH2]. split.
      * constructor; [exact IH1|]. rewrite Forall_forall in *. intros z Hz. apply IH2 in Hz.
        destruct Hz as [->|Hz]; [|apply Hall; exact Hz].
        unfold mlt. simpl. destruct (str_ltb_total k' k) as [H|H]; [congruence|exact H|congruence].
      * intros x. simpl. rewrite IH2. intuition (subst; auto).
Qed.

Lemma insert_member_perm k v : forall l, ~ In k (map fst l) -> Permutation ((k, v) :: l) (insert_member k v l).
Proof.
  induction l as [|[k' v'] r IH]; intros Hk; cbn [insert_member]; [apply Permutation_refl|].
  cbn [map fst] in Hk.
  assert (Hne : k <> k') by (intro E; apply Hk; left; auto).
  replace (String.eqb k k') with false by (symmetry; apply String.eqb_neq; exact Hne).
  destruct (str_ltb k k'); [apply Permutation_refl|].
  eapply perm_trans; [apply perm_swap|]. apply perm_skip. apply IH. intro H. apply Hk. right. exact H.
Qed.

Lemma sort_members_gen : forall l acc, NoDup (map fst acc ++ map fst l)%list -> StronglySorted mlt acc ->
  StronglySorted mlt (fold_left (fun a kv => insert_member (fst kv) (snd kv) a) l acc)
  /\ (forall x, In x (fold_left (fun a kv => insert_member (fst kv) (snd kv) a) l acc) <-> In x acc \/ In x l).
Proof.
  induction l as [|[k v] r IH]; intros acc Hn Hs; cbn [fold_left fst snd].
  - split; [exact Hs|]. intros x. simpl. tauto.
  - cbn [map fst] in Hn.
    assert (Hn2 : NoDup (k :: map fst acc ++ map fst r)%list).
    { eapply Permutation_NoDup; [apply Permutation_sym, Permutation_middle|exact Hn]. }
    inversion Hn2 as [|? ? Hk' Hn1]; subst.
    assert (Hk : ~ In k (map fst acc)) by (intro H; apply Hk'; apply in_or_app; left; exact H).
    destruct (insert_member_fresh k v acc Hk Hs) as [S1 M1].
    assert (Hn' : NoDup (map fst (insert_member k v acc) ++ map fst r)%list).
    { eapply Permutation_NoDup; [|exact Hn2].
      change (k :: map fst acc ++ map fst r)%list with ((k :: map fst acc) ++ map fst r)%list.
      apply Permutation_app_tail.
      change (k :: map fst acc) with (map fst ((k, v) :: acc)).
      apply Permutation_map. apply insert_member_perm. exact Hk. }
    destruct (IH (insert_member k v acc) Hn' S1) as [S2 M2]. split; [exact S2|].
    intros x. rewrite M2, M1. simpl. intuition (subst; auto).
Qed.

Theorem sort_members_sorted l : NoDup (map fst l) ->
  StronglySorted mlt (sort_members l) /\ (forall x, In x (sort_members l) <-> In x l).
Proof.
  intros Hn. destruct (sort_members_gen l [] Hn (SSorted_nil _)) as [S M]. split; [exact S|].
  intros x. rewrite (M x). simpl. tauto.
Qed.

(* whatever order a map is iterated in, its encoding is the same *)
Theorem sort_members_deterministic l l' : NoDup (map fst l) -> Permutation l l' -> sort_members l = sort_members l'.
Proof.
  intros Hn Hp.
  assert (Hn' : NoDup (map fst l')) by (eapply Permutation_NoDup; [apply Permutation_map; exact Hp|exact Hn]).
  destruct (sort_members_sorted l Hn) as [S1 M1]. destruct (sort_members_sorted l' Hn') as [S2 M2].
  apply (sorted_unique _ (fun a b => str_ltb (fst a) (fst b)) (fun _ => True)).
  - intros a b c _ _ _. unfold ltP. apply str_ltb_trans.
  - intros a _ H. unfold ltP in H. rewrite str_ltb_irrefl in H. discriminate.
  - apply Forall_forall. auto.
  - apply Forall_forall. auto.
  - exact S1.
  - exact S2.
  - intros x. rewrite M1, M2. split; intros H; [eapply Permutation_in; [exact Hp|exact H]|eapply Permutation_in; [apply Permutation_sym; exact Hp|exact H]].
Qed.

(* ---------- typed pointer lookups (C15): what each JSONLookup consults, from the tables ---------- *)
Definition lookup_entry_names (E : env) (e : string) : list string :=
  match s2l e with
  | "m"%char :: "a"%char :: "p"%char :: ":"%char :: r =>
      if String.eqb (l2s r) "Extensions" then ["^x-"] else []
  | "l"%char :: "i"%char :: "t"%char :: ":"%char :: r => [l2s r]
  | "p"%char :: "a"%char :: "r"%char :: "t"%char :: ":"%char :: r => part_names E (l2s r)
  | _ => []
  end.
Definition lookup_names (E : env) (lk : list (string * list string)) (k : string) : list string :=
  match assoc k lk with Some es => flat_map (lookup_entry_names E) es | None => [] end.

(* kinds whose JSONLookup is "extensions, $ref, then the parts"; `$schema` is the known gap F18 *)
Definition lookup_kinds : list string :=
  ["Header"; "Info"; "Items"; "Operation"; "Parameter"; "PathItem"; "Response"; "Schema"; "SecurityScheme"; "Swagger"; "Tag"].
Definition lookup_ok (E : env) (lk : list (string * list string)) : bool :=
  forallb (fun k => incl_str (filter (fun n => negb (String.eqb n "$schema") && negb (String.eqb n "$ref")) (encodable E k)) (lookup_names E lk k)) lookup_kinds.
Lemma lookup_gen : lookup_ok gen_env gen_lookup_parts = true.
Proof. vm_compute. reflexivity. Qed.

Theorem lookup_covers : forall k, In k lookup_kinds -> forall n, In n (encodable gen_env k) -> n <> "$schema" -> n <> "$ref" ->
  mem_str n (lookup_names gen_env gen_lookup_parts k) = true.
Proof.
  intros k Hk n Hn Hs Hr. pose proof lookup_gen as H. unfold lookup_ok in H. rewrite forallb_forall in H.
  specialize (H k Hk). unfold incl_str in H. rewrite forallb_forall in H. apply H.
  apply filter_In. split; [exact Hn|]. apply andb_true_iff. split; apply negb_true_iff; apply String.eqb_neq; assumption.
Qed.

(* ---------- gob transport of free-form payloads (C14) ---------- *)
Fixpoint no_empty_array (j : json) : bool :=
  match j with
  | JArr [] => false
  | JArr l => (fix go (l : list json) : bool := match l with [] => true | x :: r => no_empty_array x && go r end) l
  | JObj m => (fix go (m : list (string * json)) : bool := match m with [] => true | (_, v) :: r => no_empty_array v && go r end) m
  | _ => true
  end.

(* a payload without an empty array anywhere inside travels through gob unchanged — at any nesting depth *)
Lemma gob_any_id : forall j, no_empty_array j = true -> gob_any j = j.
Proof.
  intros j. remember (jsize j) as n eqn:En. revert j En.
  induction n as [n IH] using lt_wf_ind. intros j En H. subst n.
  destruct j as [| | | |l|m]; try reflexivity.
  - destruct l as [|x r]; [discriminate|]. cbn [gob_any]. f_equal.
    assert (G : forall l0, (forall y, In y l0 -> In y (x :: r)) ->
              (fix go (l : list json) : bool := match l with [] => true | x :: r => no_empty_array x && go r end) l0 = true ->
              map gob_any l0 = l0).
    { induction l0 as [|y l' IHl]; intros Hsub Hl; [reflexivity|].
      apply andb_true_iff in Hl. destruct Hl as [H1 H2]. cbn [map]. f_equal.
      - eapply (IH (jsize y)); [apply jsize_elem; apply Hsub; left; reflexivity|reflexivity|exact H1].
      - apply IHl; [intros; apply Hsub; right; assumption|exact H2]. }
    apply G; [auto|exact H].
  - cbn [gob_any]. f_equal.
    assert (G : forall m0, (forall k y, In (k, y) m0 -> In (k, y) m) ->
              (fix go (m : list (string * json)) : bool := match m with [] => true | (_, v) :: r => no_empty_array v && go r end) m0 = true ->
              (fix go (m : list (string * json)) : list (string * json) := match m with [] => [] | (k, v) :: r => (k, gob_any v) :: go r end) m0 = m0).
    { induction m0 as [|[k y] m' IHm]; intros Hsub Hm; [reflexivity|].
      apply andb_true_iff in Hm. destruct Hm as [H1 H2]. f_equal.
      - f_equal. eapply (IH (jsize y)); [eapply jsize_value; apply Hsub; left; reflexivity|reflexivity|exact H1].
      - apply IHm; [intros; eapply Hsub; right; eassumption|exact H2]. }
    apply G; [auto|exact H].
Qed.

(* sorting the keys of a payload does not create empty arrays *)
Lemma gob_drops_nonzero t m e : Z.eqb m 0 = false -> gob_drops true t (JNum m e) = false.
Proof. intros H. unfold gob_drops. destruct t; try reflexivity. destruct t; try reflexivity; cbn; rewrite H; reflexivity. Qed.
