(* "Valid Swagger 2.0 document": the meta-schema schemas/v2/schema.json (JSON-Schema draft 4)
   transcribed by hand as structural boolean predicates over [json] trees, one per definition
   of the meta-schema.  Definitions only; facts are in ValidFacts.v.

   Reading conventions (they are the draft-4 evaluation rules, specialised):
   - an object schema is a *member predicate* [string -> json -> bool] applied to every
     member of the instance ([all_members]) plus a list of required keys ([has_keys]).
     [field_case tbl other] is "properties": a key listed in [tbl] must satisfy its entry,
     any other key goes to [other]; [vendor] is  patternProperties {"^x-": {}} together
     with additionalProperties:false (key must start with "x-", value is free);
     [closed] is additionalProperties:false with no pattern.
     No property name of the meta-schema starts with "x-", so "properties" and the "^x-"
     pattern never apply to the same key.
   - [obj_of] is an object schema that also says "type":"object"; [obj_if] is one that does
     not (keywords for objects are vacuous on other instances: the four non-body parameter
     sub-schemas are written that way in the meta-schema).
   - "oneOf" is [exactly_one]; "anyOf" is [||]; "allOf" is [&&]; "not" is [negb].
   - "format" is never enforced.
   - "type":"integer" is draft-4's: a number literal without fraction or exponent, that is
     [JNum m 0] (python's jsonschema agrees: 1.0 is not an integer for Draft4Validator).
   - "uniqueItems" and "enum" use [jeq], JSON equality: numbers by value, objects as finite
     maps (member order irrelevant), booleans distinct from numbers.
   - regular expressions are the ECMA-262 ones of the meta-schema, transcribed as functions:
     "^x-" and "^/" are [prefix], "^([0-9]{3})$|^(default)$" is [status_key], the "host"
     pattern is [host_ok]; "$" is end of input and "\d" is [0-9] (as in ECMA-262 and in Go's
     regexp; python's re also lets "$" match before a final newline and "\d" match any
     Unicode decimal digit, so python accepts the response key "200\n" and the host "a:80\n").
   Objects are assumed to have no duplicate keys (the predicates look at every member;
   a JSON library that keeps only the last duplicate may answer differently).
   A literal whose written exponent cancels ("1.5e1" is [JNum 15 0]) is indistinguishable
   from "15" in [json] and counts as an integer; python reads it as the float 15.0.
   tools/validgen.py compares these predicates with python's jsonschema (Draft4Validator on
   the real meta-schema) outside those three corners. *)
From Coq Require Import List String Ascii ZArith Bool.
From Spec Require Import Base.Json.
Import ListNotations.
Local Open Scope string_scope.

(* ---------- JSON equality as used by uniqueItems / enum ---------- *)
Fixpoint jeq (a b : json) {struct a} : bool :=
  match a, b with
  | JNull, JNull => true
  | JBool x, JBool y => Bool.eqb x y
  | JNum m e, JNum m' e' => num_eqb m e m' e'
  | JStr s, JStr t => String.eqb s t
  | JArr l, JArr l' =>
      (fix go (l l' : list json) : bool :=
         match l, l' with
         | [], [] => true
         | x :: r, y :: r' => jeq x y && go r r'
         | _, _ => false
         end) l l'
  | JObj m, JObj m' =>
      Nat.eqb (List.length m) (List.length m') &&
      (fix go (m : list (string * json)) : bool :=
         match m with
         | [] => true
         | (k, x) :: r => match assoc k m' with Some y => jeq x y | None => false end && go r
         end) m
  | _, _ => false
  end.

Fixpoint juniq (l : list json) : bool :=
  match l with [] => true | x :: r => negb (existsb (jeq x) r) && juniq r end.

(* ---------- leaf assertions ---------- *)
Definition any (_ : json) : bool := true.
Definition is_str (j : json) : bool := match j with JStr _ => true | _ => false end.
Definition is_bool (j : json) : bool := match j with JBool _ => true | _ => false end.
Definition is_num (j : json) : bool := match j with JNum _ _ => true | _ => false end.
Definition is_obj (j : json) : bool := match j with JObj _ => true | _ => false end.
Definition is_arr (j : json) : bool := match j with JArr _ => true | _ => false end.

(* {"type":"string","enum":[...]} *)
Definition str_enum (l : list string) (j : json) : bool :=
  match j with JStr s => mem_str s l | _ => false end.
(* {"type":"boolean","enum":[true]} *)
Definition is_true (j : json) : bool := match j with JBool true => true | _ => false end.
(* draft-04 #/definitions/positiveInteger (and positiveIntegerDefault0, which only adds a default) *)
Definition nonneg_int (j : json) : bool :=
  match j with JNum m e => Z.eqb e 0 && Z.leb 0 m | _ => false end.
(* draft-04 #/properties/multipleOf : number, minimum 0, exclusiveMinimum *)
Definition pos_num (j : json) : bool :=
  match j with JNum m _ => Z.ltb 0 m | _ => false end.

(* ---------- arrays ---------- *)
Definition arr_of (item : json -> bool) (j : json) : bool :=
  match j with JArr l => forallb item l | _ => false end.          (* type array + items *)
Definition arr_unique (j : json) : bool :=
  match j with JArr l => juniq l | _ => true end.                   (* uniqueItems: true *)
Definition arr_nonempty (j : json) : bool :=
  match j with JArr [] => false | _ => true end.                    (* minItems: 1 *)

(* draft-04 #/definitions/stringArray *)
Definition string_array (j : json) : bool := arr_of is_str j && arr_nonempty j && arr_unique j.
(* draft-04 #/properties/enum *)
Definition enum_array (j : json) : bool := is_arr j && arr_nonempty j && arr_unique j.
(* draft-04 #/definitions/simpleTypes (an enum without "type") and #/properties/type *)
Definition simple_types : list string :=
  ["array"; "boolean"; "integer"; "null"; "number"; "object"; "string"].
Definition simple_type (j : json) : bool := str_enum simple_types j.
Definition schema_type (j : json) : bool :=
  simple_type j || (arr_of simple_type j && arr_nonempty j && arr_unique j).

(* ---------- objects ---------- *)
Definition has_key (k : string) (m : list (string * json)) : bool :=
  match assoc k m with Some _ => true | None => false end.
Definition has_keys (ks : list string) (m : list (string * json)) : bool :=
  forallb (fun k => has_key k m) ks.
Definition all_members (f : string -> json -> bool) : list (string * json) -> bool :=
  fix go (l : list (string * json)) : bool :=
    match l with [] => true | (k, v) :: r => f k v && go r end.

Definition obj_of (req : list string) (member : string -> json -> bool) (j : json) : bool :=
  match j with JObj m => has_keys req m && all_members member m | _ => false end.
Definition obj_if (req : list string) (member : string -> json -> bool) (j : json) : bool :=
  match j with JObj m => has_keys req m && all_members member m | _ => true end.

Definition field_case (tbl : list (string * (json -> bool))) (other : string -> json -> bool)
    (k : string) (v : json) : bool :=
  match assoc k tbl with Some f => f v | None => other k v end.
Definition vendor (k : string) (_ : json) : bool := prefix "x-" k.
Definition closed (_ : string) (_ : json) : bool := false.
Definition every (f : json -> bool) (_ : string) (v : json) : bool := f v.   (* additionalProperties: schema *)

Fixpoint count_true (l : list bool) : nat :=
  match l with [] => O | b :: r => (if b then 1 else 0) + count_true r end.
Definition exactly_one (l : list bool) : bool := Nat.eqb (count_true l) 1.

(* ---------- the regular expressions of the meta-schema ---------- *)
Definition is_digit (c : ascii) : bool :=
  let n := nat_of_ascii c in Nat.leb 48 n && Nat.leb n 57.

(* ^([0-9]{3})$|^(default)$ *)
Definition status_key (k : string) : bool :=
  match k with
  | String a (String b (String c EmptyString)) => is_digit a && is_digit b && is_digit c
  | _ => false
  end || (k =? "default").

(* ^[^{}/ :\\]+(?::\d+)?$ *)
Definition host_char (c : ascii) : bool :=
  let n := nat_of_ascii c in
  negb (Nat.eqb n 123 || Nat.eqb n 125 || Nat.eqb n 47 || Nat.eqb n 32 || Nat.eqb n 58 || Nat.eqb n 92).
Fixpoint skip_host (s : string) : string :=
  match s with
  | String c r => if host_char c then skip_host r else s
  | EmptyString => s
  end.
Fixpoint all_digits (s : string) : bool :=
  match s with String c r => is_digit c && all_digits r | EmptyString => true end.
Definition host_ok (s : string) : bool :=
  match s with
  | EmptyString => false
  | String c r =>
      host_char c &&
      match skip_host r with
      | EmptyString => true
      | String d ds => Nat.eqb (nat_of_ascii d) 58 && negb (ds =? "") && all_digits ds
      end
  end.

(* ---------- small definitions ---------- *)
(* vendorExtension: {"additionalProperties":true,"additionalItems":true} *)
Definition valid_vendor_extension : json -> bool := any.
Definition valid_mime_type : json -> bool := is_str.
Definition valid_media_type_list (j : json) : bool := arr_of valid_mime_type j && arr_unique j.
Definition schemes : list string := ["http"; "https"; "ws"; "wss"].
Definition valid_schemes_list (j : json) : bool := arr_of (str_enum schemes) j && arr_unique j.
Definition collection_formats : list string := ["csv"; "ssv"; "tsv"; "pipes"].
Definition collection_formats_multi : list string := ["csv"; "ssv"; "tsv"; "pipes"; "multi"].
Definition valid_collection_format : json -> bool := str_enum collection_formats.
Definition valid_collection_format_multi : json -> bool := str_enum collection_formats_multi.

Definition valid_json_reference : json -> bool :=
  obj_of ["$ref"] (field_case [("$ref", is_str)] closed).

Definition valid_external_docs : json -> bool :=
  obj_of ["url"] (field_case [("description", is_str); ("url", is_str)] vendor).

Definition valid_contact : json -> bool :=
  obj_of [] (field_case [("name", is_str); ("url", is_str); ("email", is_str)] vendor).

Definition valid_license : json -> bool :=
  obj_of ["name"] (field_case [("name", is_str); ("url", is_str)] vendor).

Definition valid_info : json -> bool :=
  obj_of ["version"; "title"]
    (field_case [("title", is_str); ("version", is_str); ("description", is_str);
                 ("termsOfService", is_str); ("contact", valid_contact); ("license", valid_license)]
       vendor).

Definition valid_xml : json -> bool :=
  obj_of [] (field_case [("name", is_str); ("namespace", is_str); ("prefix", is_str);
                         ("attribute", is_bool); ("wrapped", is_bool)] vendor).

Definition valid_tag : json -> bool :=
  obj_of ["name"] (field_case [("name", is_str); ("description", is_str);
                               ("externalDocs", valid_external_docs)] vendor).

Definition valid_examples : json -> bool := is_obj.

(* ---------- the validation keywords shared by items, headers and non-body parameters ---------- *)
(* Each entry is the meta-schema's #/definitions/<name>, itself a reference into draft-04. *)
Definition common_validations : list (string * (json -> bool)) :=
  [("format", is_str); ("default", any);
   ("maximum", is_num); ("exclusiveMaximum", is_bool);
   ("minimum", is_num); ("exclusiveMinimum", is_bool);
   ("maxLength", nonneg_int); ("minLength", nonneg_int); ("pattern", is_str);
   ("maxItems", nonneg_int); ("minItems", nonneg_int); ("uniqueItems", is_bool);
   ("enum", enum_array); ("multipleOf", pos_num)].

Definition primitive_types : list string := ["string"; "number"; "integer"; "boolean"; "array"].
Definition form_types : list string := ["string"; "number"; "boolean"; "integer"; "array"; "file"].

Definition primitives_items_flat : list (string * (json -> bool)) :=
  ("type", str_enum primitive_types) :: ("collectionFormat", valid_collection_format)
  :: common_validations.

Fixpoint valid_primitives_items (j : json) : bool :=
  match j with
  | JObj m =>
      all_members (fun k v =>
        if k =? "items" then valid_primitives_items v
        else field_case primitives_items_flat vendor k v) m
  | _ => false
  end.

Definition valid_header : json -> bool :=
  obj_of ["type"]
    (field_case (("type", str_enum primitive_types) :: ("items", valid_primitives_items)
                 :: ("collectionFormat", valid_collection_format) :: ("description", is_str)
                 :: common_validations) vendor).

Definition valid_headers : json -> bool := obj_of [] (every valid_header).

(* ---------- schema ---------- *)
Definition schema_flat : list (string * (json -> bool)) :=
  [("$ref", is_str); ("format", is_str); ("title", is_str); ("description", is_str);
   ("default", any); ("multipleOf", pos_num);
   ("maximum", is_num); ("exclusiveMaximum", is_bool);
   ("minimum", is_num); ("exclusiveMinimum", is_bool);
   ("maxLength", nonneg_int); ("minLength", nonneg_int); ("pattern", is_str);
   ("maxItems", nonneg_int); ("minItems", nonneg_int); ("uniqueItems", is_bool);
   ("maxProperties", nonneg_int); ("minProperties", nonneg_int);
   ("required", string_array); ("enum", enum_array); ("type", schema_type);
   ("discriminator", is_str); ("readOnly", is_bool);
   ("xml", valid_xml); ("externalDocs", valid_external_docs); ("example", any)].

Fixpoint valid_schema (j : json) : bool :=
  match j with
  | JObj m =>
      all_members (fun k v =>
        if k =? "additionalProperties" then
          (* anyOf [schema, boolean] *)
          valid_schema v || is_bool v
        else if k =? "items" then
          (* anyOf [schema, non-empty array of schema] *)
          valid_schema v ||
          match v with JArr (x :: r) => forallb valid_schema (x :: r) | _ => false end
        else if k =? "allOf" then
          match v with JArr (x :: r) => forallb valid_schema (x :: r) | _ => false end
        else if k =? "properties" then
          match v with JObj pm => all_members (fun _ s => valid_schema s) pm | _ => false end
        else field_case schema_flat vendor k v) m
  | _ => false
  end.

Definition valid_file_schema : json -> bool :=
  obj_of ["type"]
    (field_case [("format", is_str); ("title", is_str); ("description", is_str); ("default", any);
                 ("required", string_array); ("type", str_enum ["file"]); ("readOnly", is_bool);
                 ("externalDocs", valid_external_docs); ("example", any)] vendor).

Definition valid_definitions : json -> bool := obj_of [] (every valid_schema).

(* ---------- parameters ---------- *)
Definition valid_body_parameter : json -> bool :=
  obj_of ["name"; "in"; "schema"]
    (field_case [("description", is_str); ("name", is_str); ("in", str_enum ["body"]);
                 ("required", is_bool); ("schema", valid_schema)] vendor).

Definition valid_header_parameter_sub : json -> bool :=
  obj_if []
    (field_case (("required", is_bool) :: ("in", str_enum ["header"]) :: ("description", is_str)
                 :: ("name", is_str) :: ("type", str_enum primitive_types)
                 :: ("items", valid_primitives_items)
                 :: ("collectionFormat", valid_collection_format) :: common_validations) vendor).

Definition valid_query_parameter_sub : json -> bool :=
  obj_if []
    (field_case (("required", is_bool) :: ("in", str_enum ["query"]) :: ("description", is_str)
                 :: ("name", is_str) :: ("allowEmptyValue", is_bool)
                 :: ("type", str_enum primitive_types) :: ("items", valid_primitives_items)
                 :: ("collectionFormat", valid_collection_format_multi) :: common_validations) vendor).

Definition valid_form_data_parameter_sub : json -> bool :=
  obj_if []
    (field_case (("required", is_bool) :: ("in", str_enum ["formData"]) :: ("description", is_str)
                 :: ("name", is_str) :: ("allowEmptyValue", is_bool)
                 :: ("type", str_enum form_types) :: ("items", valid_primitives_items)
                 :: ("collectionFormat", valid_collection_format_multi) :: common_validations) vendor).

Definition valid_path_parameter_sub : json -> bool :=
  obj_if ["required"]
    (field_case (("required", is_true) :: ("in", str_enum ["path"]) :: ("description", is_str)
                 :: ("name", is_str) :: ("type", str_enum primitive_types)
                 :: ("items", valid_primitives_items)
                 :: ("collectionFormat", valid_collection_format) :: common_validations) vendor).

Definition valid_non_body_parameter (j : json) : bool :=
  obj_of ["name"; "in"; "type"] (fun _ _ => true) j &&
  exactly_one [valid_header_parameter_sub j; valid_form_data_parameter_sub j;
               valid_query_parameter_sub j; valid_path_parameter_sub j].

Definition valid_parameter (j : json) : bool :=
  exactly_one [valid_body_parameter j; valid_non_body_parameter j].

Definition valid_parameters_list (j : json) : bool :=
  arr_of (fun p => exactly_one [valid_parameter p; valid_json_reference p]) j && arr_unique j.

Definition valid_parameter_definitions : json -> bool := obj_of [] (every valid_parameter).

(* ---------- responses ---------- *)
Definition valid_response : json -> bool :=
  obj_of ["description"]
    (field_case [("description", is_str);
                 ("schema", fun s => exactly_one [valid_schema s; valid_file_schema s]);
                 ("headers", valid_headers); ("examples", valid_examples)] vendor).

Definition valid_response_value (j : json) : bool :=
  exactly_one [valid_response j; valid_json_reference j].

Definition valid_response_definitions : json -> bool := obj_of [] (every valid_response).

(* type object, minProperties 1, status-code / x- members only, and
   "not": {object whose members are all x-} *)
Definition valid_responses (j : json) : bool :=
  match j with
  | JObj m =>
      Nat.leb 1 (List.length m) &&
      all_members (fun k v => if status_key k then valid_response_value v else vendor k v) m &&
      negb (all_members vendor m)
  | _ => false
  end.

(* ---------- security ---------- *)
Definition valid_security_requirement : json -> bool :=
  obj_of [] (every (fun v => arr_of is_str v && arr_unique v)).
Definition valid_security (j : json) : bool :=
  arr_of valid_security_requirement j && arr_unique j.

Definition valid_oauth2_scopes : json -> bool := obj_of [] (every is_str).

Definition valid_basic_authentication_security : json -> bool :=
  obj_of ["type"] (field_case [("type", str_enum ["basic"]); ("description", is_str)] vendor).

Definition valid_api_key_security : json -> bool :=
  obj_of ["type"; "name"; "in"]
    (field_case [("type", str_enum ["apiKey"]); ("name", is_str);
                 ("in", str_enum ["header"; "query"]); ("description", is_str)] vendor).

Definition valid_oauth2_implicit_security : json -> bool :=
  obj_of ["type"; "flow"; "authorizationUrl"]
    (field_case [("type", str_enum ["oauth2"]); ("flow", str_enum ["implicit"]);
                 ("scopes", valid_oauth2_scopes); ("authorizationUrl", is_str);
                 ("description", is_str)] vendor).

Definition valid_oauth2_password_security : json -> bool :=
  obj_of ["type"; "flow"; "tokenUrl"]
    (field_case [("type", str_enum ["oauth2"]); ("flow", str_enum ["password"]);
                 ("scopes", valid_oauth2_scopes); ("tokenUrl", is_str);
                 ("description", is_str)] vendor).

Definition valid_oauth2_application_security : json -> bool :=
  obj_of ["type"; "flow"; "tokenUrl"]
    (field_case [("type", str_enum ["oauth2"]); ("flow", str_enum ["application"]);
                 ("scopes", valid_oauth2_scopes); ("tokenUrl", is_str);
                 ("description", is_str)] vendor).

Definition valid_oauth2_access_code_security : json -> bool :=
  obj_of ["type"; "flow"; "authorizationUrl"; "tokenUrl"]
    (field_case [("type", str_enum ["oauth2"]); ("flow", str_enum ["accessCode"]);
                 ("scopes", valid_oauth2_scopes); ("authorizationUrl", is_str);
                 ("tokenUrl", is_str); ("description", is_str)] vendor).

(* the oneOf under securityDefinitions.additionalProperties *)
Definition valid_security_scheme (j : json) : bool :=
  exactly_one [valid_basic_authentication_security j; valid_api_key_security j;
               valid_oauth2_implicit_security j; valid_oauth2_password_security j;
               valid_oauth2_application_security j; valid_oauth2_access_code_security j].

Definition valid_security_definitions : json -> bool := obj_of [] (every valid_security_scheme).

(* ---------- operations and paths ---------- *)
Definition valid_operation : json -> bool :=
  obj_of ["responses"]
    (field_case [("tags", fun j => arr_of is_str j && arr_unique j);
                 ("summary", is_str); ("description", is_str);
                 ("externalDocs", valid_external_docs); ("operationId", is_str);
                 ("produces", valid_media_type_list); ("consumes", valid_media_type_list);
                 ("parameters", valid_parameters_list); ("responses", valid_responses);
                 ("schemes", valid_schemes_list); ("deprecated", is_bool);
                 ("security", valid_security)] vendor).

Definition valid_path_item : json -> bool :=
  obj_of []
    (field_case [("$ref", is_str);
                 ("get", valid_operation); ("put", valid_operation); ("post", valid_operation);
                 ("delete", valid_operation); ("options", valid_operation);
                 ("head", valid_operation); ("patch", valid_operation);
                 ("parameters", valid_parameters_list)] vendor).

(* patternProperties "^x-" and "^/", nothing else *)
Definition valid_paths : json -> bool :=
  obj_of [] (fun k v => if prefix "/" k then valid_path_item v else vendor k v).

(* ---------- the document ---------- *)
Definition valid_swagger : json -> bool :=
  obj_of ["swagger"; "info"; "paths"]
    (field_case [("swagger", str_enum ["2.0"]);
                 ("info", valid_info);
                 ("host", fun j => match j with JStr s => host_ok s | _ => false end);
                 ("basePath", fun j => match j with JStr s => prefix "/" s | _ => false end);
                 ("schemes", valid_schemes_list);
                 ("consumes", valid_media_type_list); ("produces", valid_media_type_list);
                 ("paths", valid_paths);
                 ("definitions", valid_definitions);
                 ("parameters", valid_parameter_definitions);
                 ("responses", valid_response_definitions);
                 ("security", valid_security);
                 ("securityDefinitions", valid_security_definitions);
                 ("tags", fun j => arr_of valid_tag j && arr_unique j);
                 ("externalDocs", valid_external_docs)] vendor).

(* ---------- by name ---------- *)
(* Names are those of the meta-schema's "definitions", plus "swagger" for the root and
   "securityScheme" for the anonymous oneOf of the six security flavours. *)
Definition kinds : list (string * (json -> bool)) :=
  [("swagger", valid_swagger);
   ("info", valid_info); ("contact", valid_contact); ("license", valid_license);
   ("paths", valid_paths); ("definitions", valid_definitions);
   ("parameterDefinitions", valid_parameter_definitions);
   ("responseDefinitions", valid_response_definitions);
   ("externalDocs", valid_external_docs); ("examples", valid_examples);
   ("mimeType", valid_mime_type); ("operation", valid_operation); ("pathItem", valid_path_item);
   ("responses", valid_responses); ("responseValue", valid_response_value);
   ("response", valid_response); ("headers", valid_headers); ("header", valid_header);
   ("vendorExtension", valid_vendor_extension);
   ("bodyParameter", valid_body_parameter);
   ("headerParameterSubSchema", valid_header_parameter_sub);
   ("queryParameterSubSchema", valid_query_parameter_sub);
   ("formDataParameterSubSchema", valid_form_data_parameter_sub);
   ("pathParameterSubSchema", valid_path_parameter_sub);
   ("nonBodyParameter", valid_non_body_parameter); ("parameter", valid_parameter);
   ("schema", valid_schema); ("fileSchema", valid_file_schema);
   ("primitivesItems", valid_primitives_items);
   ("security", valid_security); ("securityRequirement", valid_security_requirement);
   ("xml", valid_xml); ("tag", valid_tag);
   ("securityDefinitions", valid_security_definitions); ("securityScheme", valid_security_scheme);
   ("basicAuthenticationSecurity", valid_basic_authentication_security);
   ("apiKeySecurity", valid_api_key_security);
   ("oauth2ImplicitSecurity", valid_oauth2_implicit_security);
   ("oauth2PasswordSecurity", valid_oauth2_password_security);
   ("oauth2ApplicationSecurity", valid_oauth2_application_security);
   ("oauth2AccessCodeSecurity", valid_oauth2_access_code_security);
   ("oauth2Scopes", valid_oauth2_scopes);
   ("mediaTypeList", valid_media_type_list); ("parametersList", valid_parameters_list);
   ("schemesList", valid_schemes_list);
   ("collectionFormat", valid_collection_format);
   ("collectionFormatWithMulti", valid_collection_format_multi);
   ("title", is_str); ("description", is_str); ("default", any);
   ("multipleOf", pos_num); ("maximum", is_num); ("exclusiveMaximum", is_bool);
   ("minimum", is_num); ("exclusiveMinimum", is_bool);
   ("maxLength", nonneg_int); ("minLength", nonneg_int); ("pattern", is_str);
   ("maxItems", nonneg_int); ("minItems", nonneg_int); ("uniqueItems", is_bool);
   ("enum", enum_array);
   ("jsonReference", valid_json_reference)].

(* unknown name: false *)
Definition valid_kind (kind : string) (j : json) : bool :=
  match assoc kind kinds with Some f => f j | None => false end.
