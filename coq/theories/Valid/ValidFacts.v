(* Small facts about the predicates of Valid.v.  Everything here is closed under the global
   context (see the Print Assumptions at the end). *)
From Coq Require Import List String Ascii ZArith Bool.
From Spec Require Import Base.Json Valid.Valid.
Import ListNotations.
Local Open Scope string_scope.

(* ---------- association lists ---------- *)
Lemma assoc_remove_key_neq : forall (A : Type) (k k' : string) (m : list (string * A)),
  k <> k' -> assoc k' (remove_key k m) = assoc k' m.
Proof.
  intros A k k' m Hne. induction m as [|[a v] r IH]; [reflexivity|]. cbn [remove_key assoc].
  destruct (String.eqb k a) eqn:Eka.
  - apply String.eqb_eq in Eka. subst a.
    destruct (String.eqb k' k) eqn:E; [apply String.eqb_eq in E; congruence|]. exact IH.
  - cbn [assoc]. destruct (String.eqb k' a); [reflexivity|exact IH].
Qed.

Lemma assoc_app_some : forall (A : Type) (k : string) (m l : list (string * A)) (v : A),
  assoc k m = Some v -> assoc k (m ++ l) = Some v.
Proof.
  intros A k m l v. induction m as [|[a w] r IH]; cbn [assoc app]; [discriminate|].
  destruct (String.eqb k a); [trivial|exact IH].
Qed.

Lemma has_key_remove_key_neq : forall k k' m,
  k <> k' -> has_key k' (remove_key k m) = has_key k' m.
Proof. intros. unfold has_key. rewrite assoc_remove_key_neq by assumption. reflexivity. Qed.

Lemma has_key_app : forall k m l, has_key k m = true -> has_key k (m ++ l) = true.
Proof.
  intros k m l. unfold has_key. destruct (assoc k m) eqn:E; [|discriminate].
  rewrite (assoc_app_some _ _ _ l _ E). reflexivity.
Qed.

Lemma has_keys_remove_key : forall ks k m,
  mem_str k ks = false -> has_keys ks m = true -> has_keys ks (remove_key k m) = true.
Proof.
  induction ks as [|a r IH]; intros k m Hk H; [reflexivity|].
  cbn [mem_str] in Hk. apply orb_false_iff in Hk. destruct Hk as [Hka Hkr].
  cbn [has_keys forallb] in *. apply andb_true_iff in H. destruct H as [H1 H2].
  apply andb_true_iff. split.
  - rewrite has_key_remove_key_neq; [exact H1|]. intro E. subst a. rewrite String.eqb_refl in Hka. discriminate.
  - apply (IH k m Hkr H2).
Qed.

Lemma has_keys_app : forall ks m l, has_keys ks m = true -> has_keys ks (m ++ l) = true.
Proof.
  induction ks as [|a r IH]; intros m l H; [reflexivity|].
  cbn [has_keys forallb] in *. apply andb_true_iff in H. destruct H as [H1 H2].
  apply andb_true_iff. split; [apply has_key_app; exact H1|apply (IH m l H2)].
Qed.

(* ---------- all_members ---------- *)
Lemma all_members_cons : forall f k v r, all_members f ((k, v) :: r) = f k v && all_members f r.
Proof. reflexivity. Qed.

Lemma all_members_remove_key : forall f k m,
  all_members f m = true -> all_members f (remove_key k m) = true.
Proof.
  intros f k m. induction m as [|[a v] r IH]; intro H; [reflexivity|].
  rewrite all_members_cons in H. apply andb_true_iff in H. destruct H as [H1 H2].
  cbn [remove_key]. destruct (String.eqb k a); [exact (IH H2)|].
  rewrite all_members_cons, H1. exact (IH H2).
Qed.

Lemma all_members_app : forall f m l,
  all_members f (m ++ l) = all_members f m && all_members f l.
Proof.
  intros f m l. induction m as [|[a v] r IH]; [reflexivity|].
  cbn [app]. rewrite !all_members_cons, IH, andb_assoc. reflexivity.
Qed.

Lemma all_members_assoc : forall f m k v,
  all_members f m = true -> assoc k m = Some v -> f k v = true.
Proof.
  intros f m k v. induction m as [|[a w] r IH]; intros H E; [discriminate|].
  rewrite all_members_cons in H. apply andb_true_iff in H. destruct H as [H1 H2].
  cbn [assoc] in E. destruct (String.eqb k a) eqn:Eka.
  - apply String.eqb_eq in Eka. subst a. injection E as ->. exact H1.
  - exact (IH H2 E).
Qed.

(* ---------- object schemas: removing a non-required member, adding a vendor extension ---------- *)
Lemma obj_of_remove_key : forall req member k m,
  mem_str k req = false ->
  obj_of req member (JObj m) = true -> obj_of req member (JObj (remove_key k m)) = true.
Proof.
  intros req member k m Hk H. cbn [obj_of] in *. apply andb_true_iff in H. destruct H as [H1 H2].
  apply andb_true_iff. split; [apply has_keys_remove_key; assumption|apply all_members_remove_key; assumption].
Qed.

Lemma obj_of_add_member : forall req member k v m,
  member k v = true ->
  obj_of req member (JObj m) = true -> obj_of req member (JObj (m ++ [(k, v)])) = true.
Proof.
  intros req member k v m Hk H. cbn [obj_of] in *. apply andb_true_iff in H. destruct H as [H1 H2].
  apply andb_true_iff. split; [apply has_keys_app; exact H1|].
  rewrite all_members_app, H2, all_members_cons, Hk. reflexivity.
Qed.

(* valid_info is preserved by removing any member other than the two required ones
   (in particular an optional member whose value is the empty string). *)
Theorem valid_info_remove_optional : forall k m,
  k <> "version" -> k <> "title" ->
  valid_info (JObj m) = true -> valid_info (JObj (remove_key k m)) = true.
Proof.
  intros k m Hv Ht. unfold valid_info. apply obj_of_remove_key.
  cbn [mem_str]. apply String.eqb_neq in Hv. apply String.eqb_neq in Ht.
  rewrite Hv, Ht. reflexivity.
Qed.

Theorem valid_info_add_vendor : forall k v m,
  prefix "x-" k = true ->
  valid_info (JObj m) = true -> valid_info (JObj (m ++ [(k, v)])) = true.
Proof.
  intros k v m Hk. unfold valid_info. apply obj_of_add_member.
  unfold field_case. destruct (assoc k _) eqn:E; [|exact Hk].
  (* no listed property starts with "x-" *)
  exfalso. cbn [assoc] in E.
  repeat match type of E with
         | (if String.eqb k ?s then _ else _) = _ =>
             let Es := fresh "Es" in
             destruct (String.eqb k s) eqn:Es;
             [apply String.eqb_eq in Es; subst k; cbv in Hk; discriminate Hk|]
         end.
  discriminate E.
Qed.

(* The same two facts for every other closed object of the meta-schema follow from
   obj_of_remove_key / obj_of_add_member in the same way; two more instances: *)
Theorem valid_tag_remove_optional : forall k m,
  k <> "name" -> valid_tag (JObj m) = true -> valid_tag (JObj (remove_key k m)) = true.
Proof.
  intros k m Hn. unfold valid_tag. apply obj_of_remove_key.
  cbn [mem_str]. apply String.eqb_neq in Hn. rewrite Hn. reflexivity.
Qed.

Theorem valid_operation_remove_optional : forall k m,
  k <> "responses" -> valid_operation (JObj m) = true -> valid_operation (JObj (remove_key k m)) = true.
Proof.
  intros k m Hn. unfold valid_operation. apply obj_of_remove_key.
  cbn [mem_str]. apply String.eqb_neq in Hn. rewrite Hn. reflexivity.
Qed.

(* ---------- unfolding equations of the two recursive predicates ---------- *)
Definition schema_member (k : string) (v : json) : bool :=
  if k =? "additionalProperties" then valid_schema v || is_bool v
  else if k =? "items" then
    valid_schema v || match v with JArr (x :: r) => forallb valid_schema (x :: r) | _ => false end
  else if k =? "allOf" then
    match v with JArr (x :: r) => forallb valid_schema (x :: r) | _ => false end
  else if k =? "properties" then
    match v with JObj pm => all_members (fun _ s => valid_schema s) pm | _ => false end
  else field_case schema_flat vendor k v.

Lemma valid_schema_obj : forall m, valid_schema (JObj m) = all_members schema_member m.
Proof. reflexivity. Qed.

Lemma valid_schema_not_obj : forall j, is_obj j = false -> valid_schema j = false.
Proof. destruct j; cbn; intro H; try reflexivity; discriminate. Qed.

Lemma valid_primitives_items_obj : forall m,
  valid_primitives_items (JObj m) =
  all_members (fun k v => if k =? "items" then valid_primitives_items v
                          else field_case primitives_items_flat vendor k v) m.
Proof. reflexivity. Qed.

(* the empty schema and the pure reference are schemas *)
Lemma valid_schema_empty : valid_schema (JObj []) = true.
Proof. reflexivity. Qed.
Lemma valid_schema_ref : forall s, valid_schema (JObj [("$ref", JStr s)]) = true.
Proof. reflexivity. Qed.

(* ---------- uniqueItems on string lists is nodup_str ---------- *)
Lemma existsb_jeq_str : forall s l, existsb (jeq (JStr s)) (map JStr l) = mem_str s l.
Proof.
  intros s l. induction l as [|x r IH]; [reflexivity|].
  change (existsb (jeq (JStr s)) (map JStr (x :: r)))
    with (String.eqb s x || existsb (jeq (JStr s)) (map JStr r)).
  rewrite IH. reflexivity.
Qed.

Lemma juniq_strs : forall l, juniq (map JStr l) = nodup_str l.
Proof.
  induction l as [|x r IH]; [reflexivity|].
  change (juniq (map JStr (x :: r)))
    with (negb (existsb (jeq (JStr x)) (map JStr r)) && juniq (map JStr r)).
  rewrite existsb_jeq_str, IH. reflexivity.
Qed.

(* ---------- the oneOf's of "parameter" and "responseValue" have exclusive branches ---------- *)
Lemma exactly_one_2 : forall a b, exactly_one [a; b] = xorb a b.
Proof. destruct a, b; reflexivity. Qed.

(* an object with a "schema" member satisfies none of the four non-body sub-schemas *)
Lemma sub_rejects_schema : forall tbl req m v,
  assoc "schema" tbl = None ->
  assoc "schema" m = Some v ->
  obj_if req (field_case tbl vendor) (JObj m) = false.
Proof.
  intros tbl req m v Ht Hm. cbn [obj_if].
  destruct (all_members (field_case tbl vendor) m) eqn:E; [|apply andb_false_r].
  pose proof (all_members_assoc _ _ _ _ E Hm) as H. unfold field_case in H. rewrite Ht in H.
  cbv in H. discriminate.
Qed.

Theorem body_excludes_non_body : forall j,
  valid_body_parameter j = true -> valid_non_body_parameter j = false.
Proof.
  intros [| | | | |m]; try discriminate. intro H.
  unfold valid_body_parameter in H. cbn [obj_of] in H. apply andb_true_iff in H. destruct H as [Hk _].
  cbn [has_keys forallb] in Hk. repeat (apply andb_true_iff in Hk; destruct Hk as [? Hk]).
  match goal with H : has_key "schema" m = true |- _ => unfold has_key in H; destruct (assoc "schema" m) as [v|] eqn:Ev; [clear H|discriminate] end.
  unfold valid_non_body_parameter.
  unfold valid_header_parameter_sub, valid_form_data_parameter_sub, valid_query_parameter_sub, valid_path_parameter_sub.
  rewrite !(sub_rejects_schema _ _ m v) by (reflexivity || exact Ev).
  apply andb_false_r.
Qed.

Corollary valid_parameter_or : forall j,
  valid_parameter j = valid_body_parameter j || valid_non_body_parameter j.
Proof.
  intro j. unfold valid_parameter. rewrite exactly_one_2.
  destruct (valid_body_parameter j) eqn:E; [|destruct (valid_non_body_parameter j); reflexivity].
  rewrite (body_excludes_non_body j E). reflexivity.
Qed.

Theorem response_excludes_reference : forall j,
  valid_response j = true -> valid_json_reference j = false.
Proof.
  intros [| | | | |m]; try discriminate. intro H.
  unfold valid_response in H. cbn [obj_of] in H. apply andb_true_iff in H. destruct H as [Hk _].
  cbn [has_keys forallb] in Hk. apply andb_true_iff in Hk. destruct Hk as [Hk _].
  unfold has_key in Hk. destruct (assoc "description" m) as [v|] eqn:Ev; [clear Hk|discriminate].
  unfold valid_json_reference. cbn [obj_of].
  destruct (all_members (field_case [("$ref", is_str)] closed) m) eqn:E; [|apply andb_false_r].
  pose proof (all_members_assoc _ _ _ _ E Ev) as H. cbv in H. discriminate.
Qed.

Corollary valid_response_value_or : forall j,
  valid_response_value j = valid_response j || valid_json_reference j.
Proof.
  intro j. unfold valid_response_value. rewrite exactly_one_2.
  destruct (valid_response j) eqn:E; [|destruct (valid_json_reference j); reflexivity].
  rewrite (response_excludes_reference j E). reflexivity.
Qed.

(* ---------- responses ---------- *)
(* "minProperties":1 is implied by the "not" clause *)
Lemma valid_responses_nonempty : valid_responses (JObj []) = false.
Proof. reflexivity. Qed.

(* valid_kind agrees with the named predicates *)
Lemma valid_kind_swagger : forall j, valid_kind "swagger" j = valid_swagger j.
Proof. reflexivity. Qed.
Lemma valid_kind_schema : forall j, valid_kind "schema" j = valid_schema j.
Proof. reflexivity. Qed.
Lemma valid_kind_parameter : forall j, valid_kind "parameter" j = valid_parameter j.
Proof. reflexivity. Qed.

Print Assumptions valid_info_remove_optional.
Print Assumptions valid_info_add_vendor.
Print Assumptions valid_operation_remove_optional.
Print Assumptions juniq_strs.
Print Assumptions valid_parameter_or.
Print Assumptions valid_response_value_or.
Print Assumptions valid_schema_obj.
