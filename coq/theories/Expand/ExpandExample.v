(* Concrete reference graphs on which the premises of the C02/C03 theorems are discharged by computation. *)
From Coq Require Import List String Bool.
From Spec Require Import Base.Json Base.Url Codec.Types Codec.Gen_Tables Codec.Codec Codec.CodecFacts
  Expand.Expand Expand.ExpandFacts Expand.ExpandSim Expand.ExpandSimCheck Expand.ExpandCycle Expand.ExpandElem Expand.ExpandSpecSim.
Import ListNotations.
Local Open Scope string_scope.

Definition pj (s : string) : json := match parse_json s with Some j => j | None => JNull end.
Definition nf (k : string) (j : json) : json := match norm gen_env false j (TNamed k) with ROk v => v | _ => JNull end.
Definition ex_root_url := "file:///r/root.json".
Definition ex_other_url := "file:///r/sub/o.json".
Definition ex_s0 := mkSt [] [] [] "" false.

(* cyclic: two documents in different directories, a self cycle, a cycle across the documents, a back reference into the
   root by relative URL, a pointer token that needs ~0 *)
Definition ex_root : json := Eval vm_compute in nf "Swagger" (pj
 "{""swagger"":""2.0"",""info"":{""title"":""t"",""version"":""1""},""paths"":{},""definitions"":{
   ""a"":{""type"":""object"",""properties"":{""next"":{""$ref"":""#/definitions/a""},""o"":{""$ref"":""sub/o.json#/definitions/b""}}},
   ""e~f"":{""type"":""string""}}}").
Definition ex_other : json := Eval vm_compute in nf "Swagger" (pj
 "{""swagger"":""2.0"",""info"":{""title"":""o"",""version"":""1""},""paths"":{},""definitions"":{
   ""b"":{""type"":""array"",""items"":{""$ref"":""#/definitions/c""}},
   ""c"":{""allOf"":[{""$ref"":""../root.json#/definitions/a""},{""$ref"":""../root.json#/definitions/e~0f""},{""type"":""string""}]}}}").
Definition ex_docs := [(ex_root_url, ex_root); (ex_other_url, ex_other)].
Definition ex_start : json := match ptr_get ["definitions"; "a"] ex_root with Some j => j | None => JNull end.
Definition ex_nodes := Eval vm_compute in collect gen_env ex_docs "/" 200 [(ex_root_url, ex_start)] [].
Definition ex_live := Some (ex_root_url, ex_root).

(* acyclic: the same layout without the two back edges *)
Definition ac_root : json := Eval vm_compute in nf "Swagger" (pj
 "{""swagger"":""2.0"",""info"":{""title"":""t"",""version"":""1""},""paths"":{},""definitions"":{
   ""a"":{""type"":""object"",""properties"":{""l"":{""$ref"":""#/definitions/e~0f""},""o"":{""$ref"":""sub/o.json#/definitions/b""}}},
   ""e~f"":{""type"":""string""}}}").
Definition ac_other : json := Eval vm_compute in nf "Swagger" (pj
 "{""swagger"":""2.0"",""info"":{""title"":""o"",""version"":""1""},""paths"":{},""definitions"":{
   ""b"":{""type"":""array"",""items"":{""$ref"":""#/definitions/c""}},
   ""c"":{""allOf"":[{""$ref"":""../root.json#/definitions/e~0f""},{""$ref"":""./../root.json#/definitions/e~0f""},{""type"":""string""}]}}}").
Definition ac_docs := [(ex_root_url, ac_root); (ex_other_url, ac_other)].
Definition ac_start : json := match ptr_get ["definitions"; "a"] ac_root with Some j => j | None => JNull end.
Definition ac_nodes := Eval vm_compute in
  topo gen_env ac_docs "/" 50 (collect gen_env ac_docs "/" 200 [(ex_root_url, ac_start)] []) [].
Definition ac_live := Some (ex_root_url, ac_root).

(* a parameter chain that crosses documents (the witness of the repaired defect F7): x.json's operation refers to
   root.json#/parameters/p1, which refers — fragment-only — to p0 OF root.json (x.json has a p0 too), a body parameter
   whose schema is recursive *)
Definition el_root_url := "file:///r/root.json".
Definition el_other_url := "file:///q/x.json".
Definition el_root : json := Eval vm_compute in nf "Swagger" (pj
 "{""swagger"":""2.0"",""info"":{""title"":""doc0"",""version"":""1""},
   ""parameters"":{""p0"":{""in"":""body"",""name"":""b"",""schema"":{""$ref"":""#/definitions/n""}},""p1"":{""$ref"":""#/parameters/p0""}},
   ""definitions"":{""n"":{""type"":""object"",""properties"":{""next"":{""$ref"":""#/definitions/n""}}}},
   ""paths"":{""/y"":{""$ref"":""../q/x.json#/paths/~1z0""}}}").
Definition el_other : json := Eval vm_compute in nf "Swagger" (pj
 "{""swagger"":""2.0"",""info"":{""title"":""doc2"",""version"":""1""},
   ""parameters"":{""p0"":{""in"":""header"",""name"":""other"",""type"":""integer""}},
   ""definitions"":{""n"":{""type"":""string""}},
   ""paths"":{""/z0"":{""post"":{""parameters"":[{""$ref"":""../r/root.json#/parameters/p1""}],""responses"":{""200"":{""description"":""d""}}}}}}").
Definition el_docs := [(el_root_url, el_root); (el_other_url, el_other)].
Definition el_holder : list (string * json) := [("$ref", JStr "../r/root.json#/parameters/p1")].
Definition el_p0 : list (string * json) := [("name", JStr "b"); ("in", JStr "body"); ("schema", JObj [("$ref", JStr "#/definitions/n")])].
Definition el_enodes : list (string * string * list (string * json)) :=
  [("Parameter", el_other_url, el_holder); ("Parameter", el_root_url, [("$ref", JStr "#/parameters/p0")]); ("Parameter", el_root_url, el_p0)].
Definition el_nodes := Eval vm_compute in collect gen_env el_docs "/" 100 [(el_root_url, JObj [("$ref", JStr "#/definitions/n")])] [].
Definition el_live := Some (el_root_url, el_root).

(* a whole specification: a recursive definition, a shared parameter that is a chain into another document, a shared response
   with a recursive schema, a path item with its own parameter (a reference to the shared one) and an operation whose
   parameters and responses are references and literals, a vendor extension among the responses *)
Definition sp_root_url := "file:///r/root.json".
Definition sp_other_url := "file:///r/sub/o.json".
Definition sp_root : json := Eval vm_compute in nf "Swagger" (pj
 "{""swagger"":""2.0"",""info"":{""title"":""t"",""version"":""1""},
   ""definitions"":{""A"":{""type"":""object"",""properties"":{""next"":{""$ref"":""#/definitions/A""},""o"":{""$ref"":""sub/o.json#/definitions/B""}}}},
   ""parameters"":{""P"":{""$ref"":""sub/o.json#/parameters/Q""},""L"":{""name"":""l"",""in"":""body"",""schema"":{""$ref"":""#/definitions/A""}}},
   ""responses"":{""R"":{""description"":""r"",""schema"":{""$ref"":""#/definitions/A""}}},
   ""paths"":{""/x"":{""parameters"":[{""$ref"":""#/parameters/P""}],
                      ""get"":{""parameters"":[{""name"":""b"",""in"":""body"",""schema"":{""$ref"":""sub/o.json#/definitions/B""}},{""$ref"":""#/parameters/L""}],
                               ""responses"":{""200"":{""$ref"":""#/responses/R""},""default"":{""description"":""d""},""x-ext"":{""a"":1}}}},
              ""/y"":{""$ref"":""sub/o.json#/paths/~1z""}}}").
Definition sp_other : json := Eval vm_compute in nf "Swagger" (pj
 "{""swagger"":""2.0"",""info"":{""title"":""o"",""version"":""1""},
   ""definitions"":{""B"":{""type"":""array"",""items"":{""$ref"":""../root.json#/definitions/A""}}},
   ""parameters"":{""Q"":{""$ref"":""#/parameters/Q2""},""Q2"":{""name"":""q"",""in"":""query"",""type"":""string""}},
   ""paths"":{""/z"":{""post"":{""parameters"":[{""$ref"":""#/parameters/Q""}],""responses"":{""200"":{""description"":""ok"",""schema"":{""$ref"":""#/definitions/B""}}}}}}}").
Definition sp_docs := [(sp_root_url, sp_root); (sp_other_url, sp_other)].
Definition sp_members : list (string * json) := match sp_root with JObj m => m | _ => [] end.
Definition sp_enodes := Eval vm_compute in collect_e gen_env sp_docs "/" 200 (root_items sp_root_url sp_members) [].
Definition sp_nodes := Eval vm_compute in collect gen_env sp_docs "/" 300 (schema_starts sp_root_url sp_members sp_enodes) [].
Definition sp_bad0 := Eval vm_compute in def_keys sp_members.
Definition sp_ranks := Eval vm_compute in ranks_of gen_env sp_docs "/" sp_enodes.
Definition sp_live := Some (sp_root_url, sp_root).

(* the same specification without the back edges: A refers to a leaf, B to A *)
Definition sa_root : json := Eval vm_compute in nf "Swagger" (pj
 "{""swagger"":""2.0"",""info"":{""title"":""t"",""version"":""1""},
   ""definitions"":{""A"":{""type"":""object"",""properties"":{""l"":{""$ref"":""#/definitions/L""},""o"":{""$ref"":""sub/o.json#/definitions/C""}}},""L"":{""type"":""string""}},
   ""parameters"":{""P"":{""$ref"":""sub/o.json#/parameters/Q""},""L"":{""name"":""l"",""in"":""body"",""schema"":{""$ref"":""#/definitions/A""}}},
   ""responses"":{""R"":{""description"":""r"",""schema"":{""$ref"":""#/definitions/A""}}},
   ""paths"":{""/x"":{""parameters"":[{""$ref"":""#/parameters/P""}],
                      ""get"":{""parameters"":[{""name"":""b"",""in"":""body"",""schema"":{""$ref"":""sub/o.json#/definitions/B""}},{""$ref"":""#/parameters/L""}],
                               ""responses"":{""200"":{""$ref"":""#/responses/R""},""default"":{""description"":""d""},""x-ext"":{""a"":1}}}},
              ""/y"":{""$ref"":""sub/o.json#/paths/~1z""}}}").
Definition sa_other : json := Eval vm_compute in nf "Swagger" (pj
 "{""swagger"":""2.0"",""info"":{""title"":""o"",""version"":""1""},
   ""definitions"":{""B"":{""type"":""array"",""items"":{""$ref"":""../root.json#/definitions/A""}},""C"":{""type"":""integer""}},
   ""parameters"":{""Q"":{""$ref"":""#/parameters/Q2""},""Q2"":{""name"":""q"",""in"":""query"",""type"":""string""}},
   ""paths"":{""/z"":{""post"":{""parameters"":[{""$ref"":""#/parameters/Q""}],""responses"":{""200"":{""description"":""ok"",""schema"":{""$ref"":""#/definitions/B""}}}}}}}").
Definition sa_docs := [(sp_root_url, sa_root); (sp_other_url, sa_other)].
Definition sa_members : list (string * json) := match sa_root with JObj m => m | _ => [] end.
Definition sa_enodes := Eval vm_compute in collect_e gen_env sa_docs "/" 200 (root_items sp_root_url sa_members) [].
Definition sa_nodes := Eval vm_compute in
  topo gen_env sa_docs "/" 60 (collect gen_env sa_docs "/" 300 (schema_starts sp_root_url sa_members sa_enodes) []) [].
Definition sa_bad0 := Eval vm_compute in def_keys sa_members.
Definition sa_ranks := Eval vm_compute in ranks_of gen_env sa_docs "/" sa_enodes.
Definition sa_live := Some (sp_root_url, sa_root).
