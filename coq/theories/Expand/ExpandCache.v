(* Cache transparency (C18, first half): the result of the schema walk does not depend on what the resolution cache
   holds, as long as the cache is consistent with the loader (every cached document is the one the loader serves at that
   location): two runs from states with the same memo of circular references, arbitrary consistent caches and arbitrary
   (coherent) resolver roots return the same JSON and the same memo.  The graph hypotheses are those of ExpandSim.v. *)
From Coq Require Import List String Ascii Bool Arith Lia.
From Spec Require Import Base.Json Base.JsonFacts Base.Url Base.UrlFacts Codec.Types Codec.Codec
  Expand.Expand Expand.ExpandFacts Expand.ExpandSim Expand.ExpandSimCheck Expand.ExpandCycle.
Import ListNotations.
Local Open Scope string_scope.

Section Fold2.
Variables W1 W2 : json -> st -> eres (st * json).
Variable Rst : st -> st -> Prop.
Variable Dom : json -> Prop.
Hypothesis HW : forall x s1 s2 s1' s2' x1 x2, Dom x -> Rst s1 s2 -> W1 x s1 = Done (s1', x1) -> W2 x s2 = Done (s2', x2) ->
  Rst s1' s2' /\ x1 = x2.

Lemma fold_elems_2 : forall l s1 s2 out s1' s2' l1 l2, (forall x, In x l -> Dom x) -> Rst s1 s2 ->
  fold_elems W1 l s1 out = Done (s1', l1) -> fold_elems W2 l s2 out = Done (s2', l2) -> Rst s1' s2' /\ l1 = l2.
Proof.
  induction l as [|x r IH]; intros s1 s2 out s1' s2' l1 l2 Hd Hs H1 H2; cbn [fold_elems] in H1, H2.
  - inversion H1; inversion H2; subst. split; [exact Hs|reflexivity].
  - assert (Hr : forall y, In y r -> Dom y) by (intros y Hy; apply Hd; right; exact Hy).
    destruct x as [| | | |lx|mx]; try (exact (IH _ _ _ _ _ _ _ Hr Hs H1 H2)).
    destruct (W1 (JObj mx) s1) as [[t1 x1]|sf| |] eqn:E1; try discriminate.
    destruct (W2 (JObj mx) s2) as [[t2 x2]|sf| |] eqn:E2; try discriminate.
    destruct (HW _ _ _ _ _ _ _ (Hd _ (or_introl eq_refl)) Hs E1 E2) as [Hs' ->].
    exact (IH _ _ _ _ _ _ _ Hr Hs' H1 H2).
Qed.
Lemma fold_values_2 : forall l s1 s2 out s1' s2' l1 l2, (forall k x, In (k, x) l -> Dom x) -> Rst s1 s2 ->
  fold_values W1 l s1 out = Done (s1', l1) -> fold_values W2 l s2 out = Done (s2', l2) -> Rst s1' s2' /\ l1 = l2.
Proof.
  induction l as [|[k x] r IH]; intros s1 s2 out s1' s2' l1 l2 Hd Hs H1 H2; cbn [fold_values] in H1, H2.
  - inversion H1; inversion H2; subst. split; [exact Hs|reflexivity].
  - assert (Hr : forall k' y, In (k', y) r -> Dom y) by (intros k' y Hy; eapply Hd; right; exact Hy).
    destruct x as [| | | |lx|mx]; try (exact (IH _ _ _ _ _ _ _ Hr Hs H1 H2)).
    destruct (W1 (JObj mx) s1) as [[t1 x1]|sf| |] eqn:E1; try discriminate.
    destruct (W2 (JObj mx) s2) as [[t2 x2]|sf| |] eqn:E2; try discriminate.
    destruct (HW _ _ _ _ _ _ _ (Hd k _ (or_introl eq_refl)) Hs E1 E2) as [Hs' ->].
    exact (IH _ _ _ _ _ _ _ Hr Hs' H1 H2).
Qed.
Lemma child_step_2 k v s1 s2 s1' s2' v1 v2 : (forall x, schema_child k v x -> Dom x) -> Rst s1 s2 ->
  child_step W1 k v s1 = Done (s1', v1) -> child_step W2 k v s2 = Done (s2', v2) -> Rst s1' s2' /\ v1 = v2.
Proof.
  intros Hd Hs. unfold child_step.
  destruct (mem_str k ["definitions"; "properties"; "patternProperties"; "dependencies"]) eqn:E1.
  { destruct v as [| | | |l|vm]; try (intros H1 H2; inversion H1; inversion H2; subst; split; [exact Hs|reflexivity]).
    destruct (fold_values W1 vm s1 []) as [[t1 m1]|sf| |] eqn:F1; try discriminate.
    destruct (fold_values W2 vm s2 []) as [[t2 m2]|sf| |] eqn:F2; try discriminate.
    intros H1 H2. inversion H1; inversion H2; subst.
    destruct (fold_values_2 _ _ _ _ _ _ _ _ (fun k' x Hin => Hd x (sc_map k vm k' x E1 Hin)) Hs F1 F2) as [Hs' ->]. split; [exact Hs'|reflexivity]. }
  destruct (mem_str k ["allOf"; "anyOf"; "oneOf"]) eqn:E2.
  { destruct v as [| | | |l|vm]; try (intros H1 H2; inversion H1; inversion H2; subst; split; [exact Hs|reflexivity]).
    destruct (fold_elems W1 l s1 []) as [[t1 m1]|sf| |] eqn:F1; try discriminate.
    destruct (fold_elems W2 l s2 []) as [[t2 m2]|sf| |] eqn:F2; try discriminate.
    intros H1 H2. inversion H1; inversion H2; subst.
    destruct (fold_elems_2 _ _ _ _ _ _ _ _ (fun x Hin => Hd x (sc_arr k l x E1 E2 Hin)) Hs F1 F2) as [Hs' ->]. split; [exact Hs'|reflexivity]. }
  destruct (String.eqb k "items") eqn:E3.
  { destruct v as [| | | |l|vm]; try (intros H1 H2; inversion H1; inversion H2; subst; split; [exact Hs|reflexivity]).
    - destruct (fold_elems W1 l s1 []) as [[t1 m1]|sf| |] eqn:F1; try discriminate.
      destruct (fold_elems W2 l s2 []) as [[t2 m2]|sf| |] eqn:F2; try discriminate.
      intros H1 H2. inversion H1; inversion H2; subst.
      destruct (fold_elems_2 _ _ _ _ _ _ _ _ (fun x Hin => Hd x (sc_items_arr k l x E1 E2 E3 Hin)) Hs F1 F2) as [Hs' ->]. split; [exact Hs'|reflexivity].
    - intros H1 H2. exact (HW _ _ _ _ _ _ _ (Hd _ (sc_items_obj k vm E1 E2 E3)) Hs H1 H2). }
  destruct (mem_str k ["not"; "additionalProperties"; "additionalItems"]) eqn:E4.
  { destruct v as [| | | |l|vm]; try (intros H1 H2; inversion H1; inversion H2; subst; split; [exact Hs|reflexivity]).
    intros H1 H2. exact (HW _ _ _ _ _ _ _ (Hd _ (sc_single k vm E1 E2 E3 E4)) Hs H1 H2). }
  intros H1 H2; inversion H1; inversion H2; subst; split; [exact Hs|reflexivity].
Qed.
Lemma fold_members_2 : forall m s1 s2 out s1' s2' m1 m2, (forall k v x, In (k, v) m -> schema_child k v x -> Dom x) -> Rst s1 s2 ->
  fold_members W1 m s1 out = Done (s1', m1) -> fold_members W2 m s2 out = Done (s2', m2) -> Rst s1' s2' /\ m1 = m2.
Proof.
  induction m as [|[k v] r IH]; intros s1 s2 out s1' s2' m1 m2 Hd Hs H1 H2; cbn [fold_members] in H1, H2.
  - inversion H1; inversion H2; subst. split; [exact Hs|reflexivity].
  - destruct (child_step W1 k v s1) as [[t1 v1]|sf| |] eqn:E1; try discriminate.
    destruct (child_step W2 k v s2) as [[t2 v2]|sf| |] eqn:E2; try discriminate.
    destruct (child_step_2 _ _ _ _ _ _ _ _ (fun x Hx => Hd k v x (or_introl eq_refl) Hx) Hs E1 E2) as [Hs' ->].
    exact (IH _ _ _ _ _ _ _ (fun k' v0 x Hin Hx => Hd k' v0 x (or_intror Hin) Hx) Hs' H1 H2).
Qed.
End Fold2.

Section CacheT.
Variable E : env.
Variable docs : list (string * json).
Variable cwd : string.
Variable OP : opts.
Variable ctx_base : string.
Variable live : option (string * json).
Variable rid : string.
Hypothesis live_served : forall lu ld, live = Some (lu, ld) -> doc_at docs cwd lu = Some ld.
Variable G : string -> json -> Prop.
Hypothesis G_child : forall b m k v x, G b (JObj m) -> has_ref m = false -> In (k, v) m -> child_of x v -> G b x.
Hypothesis G_target : forall b m b' t, G b (JObj m) -> has_ref m = true -> sem_target E docs cwd (get_str "$ref" m) b = Some (b', t) -> G b' t.
Hypothesis G_plain : forall b m, G b (JObj m) -> get_str "id" m = "" /\ assoc "$ref" m <> Some (JStr "").
Hypothesis G_same : forall b m nref, G b (JObj m) -> has_ref m = true -> nuri (get_str "$ref" m) b = POk nref ->
  keeps_resolver (get_str "$ref" m) b nref -> nbase cwd (strip_frag nref) = nbase cwd (strip_frag b).
Hypothesis strict : o_cont OP = false.

(* two states that differ in what their (consistent) caches hold, and in their loader logs *)
Definition Rst (s1 s2 : st) : Prop := Inv docs rid s1 /\ Inv docs rid s2 /\ memo s1 = memo s2.

Lemma is_circular_2 s1 s2 nref parents : memo s1 = memo s2 ->
  snd (is_circular s1 nref parents) = snd (is_circular s2 nref parents)
  /\ memo (fst (is_circular s1 nref parents)) = memo (fst (is_circular s2 nref parents)).
Proof.
  intros Hm. unfold is_circular. rewrite Hm. destruct (mem_str nref (memo s2)); [split; [reflexivity|exact Hm]|].
  destruct (mem_str nref parents); cbn [fst snd memo set_memo]; [split; reflexivity|split; [reflexivity|exact Hm]].
Qed.
Lemma render_kept_rootid s1 s2 nref : rootid s1 = rootid s2 -> render_kept OP ctx_base s1 nref = render_kept OP ctx_base s2 nref.
Proof. intros H. unfold render_kept. rewrite H. reflexivity. Qed.
Lemma render_rebased_rootid s1 s2 nref : rootid s1 = rootid s2 -> render_rebased ctx_base s1 nref = render_rebased ctx_base s2 nref.
Proof. intros H. unfold render_rebased. rewrite H. reflexivity. Qed.

Section Walk2.
Variable follow : st -> list string -> option string -> string -> json -> eres (st * json).
Hypothesis Hfollow : forall s1 s2 ps rr1 rr2 b t s1' s2' t1 t2, G b t -> Rst s1 s2 -> Coh cwd rr1 b -> Coh cwd rr2 b ->
  follow s1 ps rr1 b t = Done (s1', t1) -> follow s2 ps rr2 b t = Done (s2', t2) -> Rst s1' s2' /\ t1 = t2.

Lemma esr_2 s1 s2 parents rr1 rr2 base m s1' s2' j1 j2 :
  G base (JObj m) -> has_ref m = true -> Rst s1 s2 -> Coh cwd rr1 base -> Coh cwd rr2 base ->
  expand_schema_ref E docs cwd OP ctx_base live follow s1 parents rr1 base m = Done (s1', j1) ->
  expand_schema_ref E docs cwd OP ctx_base live follow s2 parents rr2 base m = Done (s2', j2) ->
  Rst s1' s2' /\ j1 = j2.
Proof.
  intros Hg Hr [Hi1 [Hi2 Hm]] Hc1 Hc2. unfold expand_schema_ref.
  destruct (nuri (get_str "$ref" m) base) as [nref| |] eqn:En; cbn [pbind]; try discriminate.
  pose proof (is_circular_2 s1 s2 nref parents Hm) as [Hcirc Hmemo].
  pose proof (is_circular_Inv docs rid s1 nref parents Hi1) as Hi1'. pose proof (is_circular_Inv docs rid s2 nref parents Hi2) as Hi2'.
  destruct (is_circular s1 nref parents) as [t1 c1] eqn:E1. destruct (is_circular s2 nref parents) as [t2 c2] eqn:E2.
  cbn [fst snd] in *. subst c2. destruct c1.
  - rewrite (render_kept_rootid t1 t2 nref) by (rewrite (proj2 Hi1'), (proj2 Hi2'); reflexivity).
    destruct (render_kept OP ctx_base t2 nref) as [txt| |]; cbn [pbind]; try discriminate.
    intros H1 H2. inversion H1; inversion H2; subst. split; [split; [exact Hi1'|split; [exact Hi2'|exact Hmemo]]|reflexivity].
  - pose proof (is_circular_false _ _ _ _ E1) as ->. pose proof (is_circular_false _ _ _ _ E2) as ->.
    assert (Hsame := G_same _ _ _ Hg Hr En).
    destruct (resolve E docs cwd live s1 rr1 (get_str "$ref" m) base "Schema") as [[u1 x1]|sf| |] eqn:R1; try discriminate; [|rewrite strict; discriminate].
    destruct (resolve E docs cwd live s2 rr2 (get_str "$ref" m) base "Schema") as [[u2 x2]|sf| |] eqn:R2; try discriminate; [|intros _; rewrite strict; discriminate].
    destruct (resolve_sem E docs cwd live rid live_served _ _ _ _ _ _ _ Hi1 Hc1 En (fun Hl => Hsame (or_introl Hl)) R1) as [T1 Hu1].
    destruct (resolve_sem E docs cwd live rid live_served _ _ _ _ _ _ _ Hi2 Hc2 En (fun Hl => Hsame (or_introl Hl)) R2) as [T2 Hu2].
    rewrite T1 in T2. inversion T2; subst x2.
    intros H1 H2. apply ebind_done in H1. apply ebind_done in H2. destruct H1 as [rc1 [Tr1 F1]]. destruct H2 as [rc2 [Tr2 F2]].
    pose proof (transitive_coh cwd _ _ _ _ _ _ Hc1 En Hsame Tr1) as Hc1'. pose proof (transitive_coh cwd _ _ _ _ _ _ Hc2 En Hsame Tr2) as Hc2'.
    assert (HR : Rst u1 u2).
    { split; [exact Hu1|split; [exact Hu2|]]. rewrite (resolve_memo E docs cwd live live_served _ _ _ _ _ _ R1), (resolve_memo E docs cwd live live_served _ _ _ _ _ _ R2). exact Hm. }
    exact (Hfollow _ _ _ _ _ _ _ _ _ _ _ (G_target _ _ _ _ Hg Hr T1) HR Hc1' Hc2' F1 F2).
Qed.

Theorem walk_2 : forall j s1 s2 parents rr1 rr2 base s1' s2' j1 j2,
  G base j -> Rst s1 s2 -> Coh cwd rr1 base -> Coh cwd rr2 base ->
  walk E docs cwd OP ctx_base live follow j s1 parents rr1 base = Done (s1', j1) ->
  walk E docs cwd OP ctx_base live follow j s2 parents rr2 base = Done (s2', j2) ->
  Rst s1' s2' /\ j1 = j2.
Proof.
  intros j. remember (jsize j) as n eqn:En. revert j En.
  induction n as [n IH] using lt_wf_ind. intros j En s1 s2 parents rr1 rr2 base s1' s2' j1 j2 Hg Hs Hc1 Hc2. subst n.
  destruct j as [| | | |l|m]; try (intros H1 H2; inversion H1; inversion H2; subst; split; [exact Hs|reflexivity]).
  cbn [walk]. destruct (G_plain _ _ Hg) as [Hid Hne].
  destruct (match assoc "$ref" m with Some (JStr r) => String.eqb r "" | _ => false end) eqn:Eemp.
  { exfalso. destruct (assoc "$ref" m) as [[| | |r| |]|]; try discriminate. apply String.eqb_eq in Eemp. subst r. apply Hne. reflexivity. }
  unfold apply_id. rewrite Hid. cbn [String.eqb].
  destruct (has_ref m) eqn:Hr.
  - destruct (negb (o_skip OP)).
    + apply esr_2; assumption.
    + destruct (nuri (get_str "$ref" m) base) as [nref| |]; cbn [pbind]; try discriminate.
      destruct Hs as [Hi1 [Hi2 Hm]].
      rewrite (render_rebased_rootid s1 s2 nref) by (rewrite (proj2 Hi1), (proj2 Hi2); reflexivity).
      destruct (render_rebased ctx_base s2 nref) as [txt| |]; cbn [pbind]; try discriminate.
      intros H1 H2. inversion H1; inversion H2; subst. split; [split; [exact Hi1|split; [exact Hi2|exact Hm]]|reflexivity].
  - intros H1 H2. apply ebind_done in H1. apply ebind_done in H2.
    destruct H1 as [[t1 m1] [F1 H1]]. destruct H2 as [[t2 m2] [F2 H2]]. cbn [fst snd] in H1, H2. inversion H1; inversion H2; subst.
    destruct (fold_members_2 (fun x s0 => walk E docs cwd OP ctx_base live follow x s0 parents rr1 base)
                (fun x s0 => walk E docs cwd OP ctx_base live follow x s0 parents rr2 base) Rst
                (fun x => jsize x < jsize (JObj m) /\ G base x)
                (fun x u1 u2 u1' u2' x1 x2 Hd HR W1 W2 => IH (jsize x) (proj1 Hd) x eq_refl u1 u2 parents rr1 rr2 base u1' u2' x1 x2 (proj2 Hd) HR Hc1 Hc2 W1 W2)
                m s1 s2 [] s1' s2' m1 m2) as [HR' ->].
    + intros k v x Hin Hc. split.
      * eapply Nat.le_lt_trans; [apply child_of_size; apply schema_child_child_of with (k := k); exact Hc|eapply jsize_value; exact Hin].
      * eapply G_child; [exact Hg|exact Hr|exact Hin|apply schema_child_child_of with (k := k); exact Hc].
    + exact Hs.
    + exact F1.
    + exact F2.
    + split; [exact HR'|reflexivity].
Qed.
End Walk2.

Theorem exp_2 : forall d s1 s2 parents rr1 rr2 base j s1' s2' j1 j2,
  G base j -> Rst s1 s2 -> Coh cwd rr1 base -> Coh cwd rr2 base ->
  exp E docs cwd OP ctx_base live d s1 parents rr1 base j = Done (s1', j1) ->
  exp E docs cwd OP ctx_base live d s2 parents rr2 base j = Done (s2', j2) ->
  Rst s1' s2' /\ j1 = j2.
Proof.
  induction d as [|d IH]; intros s1 s2 parents rr1 rr2 base j s1' s2' j1 j2 Hg Hs Hc1 Hc2; cbn [exp]; [discriminate|].
  apply walk_2; assumption.
Qed.
End CacheT.

(* with the graph hypotheses decided by the checker of ExpandSimCheck.v *)
Theorem checked_cache_transparent E docs cwd OP ctx_base rid nodes (live : option (string * json)) :
  check_nodes E docs cwd OP ctx_base rid nodes = true ->
  (forall lu ld, live = Some (lu, ld) -> doc_at docs cwd lu = Some ld) ->
  o_cont OP = false ->
  forall d s1 s2 parents rr1 rr2 base j s1' s2' j1 j2,
    GN nodes base j -> Rst docs rid s1 s2 -> Coh cwd rr1 base -> Coh cwd rr2 base ->
    exp E docs cwd OP ctx_base live d s1 parents rr1 base j = Done (s1', j1) ->
    exp E docs cwd OP ctx_base live d s2 parents rr2 base j = Done (s2', j2) ->
    Rst docs rid s1' s2' /\ j1 = j2.
Proof.
  intros Hck Hlive Hstrict.
  exact (exp_2 E docs cwd OP ctx_base live rid Hlive (GN nodes)
           (GN_child E docs cwd OP ctx_base rid nodes Hck) (GN_target E docs cwd OP ctx_base rid nodes Hck)
           (GN_plain E docs cwd OP ctx_base rid nodes Hck) (GN_same E docs cwd OP ctx_base rid nodes Hck) Hstrict).
Qed.
