(* No spurious errors (C08, second half): when every reference of the graph is resolvable — it parses, normalises,
   designates an object of a served document that decodes, and renders — the schema expansion neither fails nor leaves
   the modelled fragment: it returns a result (or runs out of fuel, which ExpandFacts.exp_terminates2 excludes for
   fuel above the number of canonical references).  With ExpandCache.exp_2 this also gives the success half of cache
   transparency: whether an expansion succeeds does not depend on what a consistent cache holds. *)
From Coq Require Import List String Ascii Bool Arith Lia.
From Spec Require Import Base.Json Base.JsonFacts Base.Url Base.UrlFacts Codec.Types Codec.Codec
  Expand.Expand Expand.ExpandFacts Expand.ExpandSim Expand.ExpandSimCheck Expand.ExpandCycle Expand.ExpandElem Expand.ExpandTermG.
Import ListNotations.
Local Open Scope string_scope.

Definition good {A} (r : eres A) : Prop := match r with Done _ => True | OOF => True | _ => False end.

Section FoldGood.
Variable W : json -> st -> eres (st * json).
Variable Iv : st -> Prop.
Variable Dom : json -> Prop.
Hypothesis HW : forall x s, Dom x -> Iv s -> good (W x s) /\ (forall s' x', W x s = Done (s', x') -> Iv s').

Definition goodI {A} (r : eres (st * A)) : Prop := good r /\ (forall s' a, r = Done (s', a) -> Iv s').

Lemma fold_elems_good : forall l s out, (forall x, In x l -> Dom x) -> Iv s -> goodI (fold_elems W l s out).
Proof.
  induction l as [|x r IH]; intros s out Hd Hs; cbn [fold_elems].
  - split; [exact I|]. intros s' a H. inversion H; subst. exact Hs.
  - assert (Hr : forall y, In y r -> Dom y) by (intros y Hy; apply Hd; right; exact Hy).
    destruct x as [| | | |lx|mx]; try (apply IH; assumption).
    destruct (HW (JObj mx) s (Hd _ (or_introl eq_refl)) Hs) as [Hg Hi].
    destruct (W (JObj mx) s) as [[s1 x']|sf| |]; try (destruct Hg); [apply IH; [exact Hr|eapply Hi; reflexivity]|].
    split; [exact I|intros; discriminate].
Qed.
Lemma fold_values_good : forall l s out, (forall k x, In (k, x) l -> Dom x) -> Iv s -> goodI (fold_values W l s out).
Proof.
  induction l as [|[k x] r IH]; intros s out Hd Hs; cbn [fold_values].
  - split; [exact I|]. intros s' a H. inversion H; subst. exact Hs.
  - assert (Hr : forall k' y, In (k', y) r -> Dom y) by (intros k' y Hy; eapply Hd; right; exact Hy).
    destruct x as [| | | |lx|mx]; try (apply IH; assumption).
    destruct (HW (JObj mx) s (Hd k _ (or_introl eq_refl)) Hs) as [Hg Hi].
    destruct (W (JObj mx) s) as [[s1 x']|sf| |]; try (destruct Hg); [apply IH; [exact Hr|eapply Hi; reflexivity]|].
    split; [exact I|intros; discriminate].
Qed.
Lemma child_step_good k v s : (forall x, schema_child k v x -> Dom x) -> Iv s -> goodI (child_step W k v s).
Proof.
  intros Hd Hs. unfold child_step.
  assert (Hid : forall j : json, goodI (Done (s, j))) by (intros j; split; [exact I|intros s' a H; inversion H; subst; exact Hs]).
  destruct (mem_str k ["definitions"; "properties"; "patternProperties"; "dependencies"]) eqn:E1.
  { destruct v as [| | | |l|vm]; try apply Hid.
    destruct (fold_values_good vm s [] (fun k' x Hin => Hd x (sc_map k vm k' x E1 Hin)) Hs) as [Hg Hi].
    destruct (fold_values W vm s []) as [[s1 vm']|sf| |]; try (destruct Hg); split; try exact I; try (intros; discriminate).
    intros s' a H. inversion H; subst. eapply Hi. reflexivity. }
  destruct (mem_str k ["allOf"; "anyOf"; "oneOf"]) eqn:E2.
  { destruct v as [| | | |l|vm]; try apply Hid.
    destruct (fold_elems_good l s [] (fun x Hin => Hd x (sc_arr k l x E1 E2 Hin)) Hs) as [Hg Hi].
    destruct (fold_elems W l s []) as [[s1 l']|sf| |]; try (destruct Hg); split; try exact I; try (intros; discriminate).
    intros s' a H. inversion H; subst. eapply Hi. reflexivity. }
  destruct (String.eqb k "items") eqn:E3.
  { destruct v as [| | | |l|vm]; try apply Hid.
    - destruct (fold_elems_good l s [] (fun x Hin => Hd x (sc_items_arr k l x E1 E2 E3 Hin)) Hs) as [Hg Hi].
      destruct (fold_elems W l s []) as [[s1 l']|sf| |]; try (destruct Hg); split; try exact I; try (intros; discriminate).
      intros s' a H. inversion H; subst. eapply Hi. reflexivity.
    - exact (HW _ _ (Hd _ (sc_items_obj k vm E1 E2 E3)) Hs). }
  destruct (mem_str k ["not"; "additionalProperties"; "additionalItems"]) eqn:E4.
  { destruct v as [| | | |l|vm]; try apply Hid. exact (HW _ _ (Hd _ (sc_single k vm E1 E2 E3 E4)) Hs). }
  apply Hid.
Qed.
Lemma fold_members_good : forall m s out, (forall k v x, In (k, v) m -> schema_child k v x -> Dom x) -> Iv s -> goodI (fold_members W m s out).
Proof.
  induction m as [|[k v] r IH]; intros s out Hd Hs; cbn [fold_members].
  - split; [exact I|]. intros s' a H. inversion H; subst. exact Hs.
  - destruct (child_step_good k v s (fun x Hx => Hd k v x (or_introl eq_refl) Hx) Hs) as [Hg Hi].
    destruct (child_step W k v s) as [[s1 v']|sf| |]; try (destruct Hg).
    + apply IH; [intros k' v0 x Hin Hx; exact (Hd k' v0 x (or_intror Hin) Hx)|eapply Hi; reflexivity].
    + split; [exact I|intros; discriminate].
Qed.
End FoldGood.

Section Complete.
Variable E : env.
Variable docs : list (string * json).
Variable cwd : string.
Variable OP : opts.
Variable ctx_base : string.
Variable live : option (string * json).
Variable rid : string.
Hypothesis live_served : forall lu ld, live = Some (lu, ld) -> doc_at docs cwd lu = Some ld.
Variable G : string -> json -> Prop.
Hypothesis G_child : forall b m k v x, G b (JObj m) -> has_ref m = false -> In (k, v) m -> child_of x v -> G b x.
Hypothesis G_target : forall b m b' t, G b (JObj m) -> has_ref m = true -> sem_target E docs cwd (get_str "$ref" m) b = Some (b', t) -> G b' t.
Hypothesis G_plain : forall b m, G b (JObj m) -> get_str "id" m = "" /\ assoc "$ref" m <> Some (JStr "").
Hypothesis G_same : forall b m nref, G b (JObj m) -> has_ref m = true -> nuri (get_str "$ref" m) b = POk nref ->
  keeps_resolver (get_str "$ref" m) b nref -> nbase cwd (strip_frag nref) = nbase cwd (strip_frag b).
(* every reference of the graph is resolvable: it normalises, designates something, its holder's base parses, and both
   renderings of its canonical form succeed *)
Hypothesis G_resolvable : forall b m, G b (JObj m) -> has_ref m = true ->
  exists nref bt br, nuri (get_str "$ref" m) b = POk nref /\ sem_target E docs cwd (get_str "$ref" m) b = Some bt
    /\ new_ref (s2l b) = POk br
    /\ (forall s, rootid s = rid -> exists t1 t2, render_kept OP ctx_base s nref = POk t1 /\ render_rebased ctx_base s nref = POk t2).

Lemma load_complete s u d : Inv docs rid s -> doc_at docs cwd u = Some d -> exists s', load docs cwd s u = Done (s', d).
Proof.
  intros [Hc Hr] Hd. unfold load, doc_at in *. destruct (nbase cwd (strip_frag u)) as [n| |]; try discriminate. cbn [pbind].
  destruct (assoc n (cache s)) as [d0|] eqn:Ec.
  - rewrite (Hc _ _ Ec) in Hd. inversion Hd; subst. eexists; reflexivity.
  - rewrite Hd. eexists; reflexivity.
Qed.
Lemma finish_complete ref toks s' d t : fin E ref toks d = Some t -> resolve_finish E ref "Schema" toks s' d = Done (set_dfail s' false, t).
Proof.
  unfold fin, resolve_finish. destruct (if String.eqb ref "" then Some d else ptr_get toks d) as [[| | | | |mm]|]; try discriminate.
  destruct (norm E false (JObj mm) (TNamed "Schema")); try discriminate. intros H. inversion H. reflexivity.
Qed.

Lemma resolve_complete s rroot ref base nref bt :
  Inv docs rid s -> Coh cwd rroot base -> nuri ref base = POk nref ->
  (is_local ref = true -> nbase cwd (strip_frag nref) = nbase cwd (strip_frag base)) ->
  sem_target E docs cwd ref base = Some bt ->
  exists s2, resolve E docs cwd live s rroot ref base "Schema" = Done (s2, snd bt).
Proof.
  intros Hs Hcoh Hn Hloc Ht. unfold sem_target in Ht. unfold resolve, is_local in *. rewrite Hn in *.
  destruct (new_ref (s2l ref)) as [r| |]; try discriminate. cbn [pbind].
  destruct (doc_at docs cwd nref) as [d|] eqn:Hd; try discriminate.
  destruct (fin E ref (ptr_tokens (u_frag (r_url r))) d) as [t|] eqn:Hf; try discriminate. inversion Ht; subst bt. cbn [snd].
  set (toks := ptr_tokens (u_frag (r_url r))) in *.
  assert (Hby : exists s2, ebind (load docs cwd s nref) (fun sd => resolve_finish E ref "Schema" toks (fst sd) (snd sd)) = Done (s2, t)).
  { destruct (load_complete s nref d Hs Hd) as [s' Hl]. rewrite Hl. cbn [ebind fst snd]. rewrite (finish_complete _ _ s' _ _ Hf). eexists; reflexivity. }
  assert (Hru : forall ru, rroot = Some ru -> doc_at docs cwd ru = doc_at docs cwd base) by (intros ru Hr; unfold doc_at; rewrite (Hcoh ru Hr); reflexivity).
  destruct (is_root r || has_fragment_only r) eqn:El; [|exact Hby].
  assert (Hdb : doc_at docs cwd base = Some d) by (unfold doc_at in *; rewrite <- (Hloc eq_refl); exact Hd).
  destruct rroot as [ru|].
  - assert (Hvia : exists s2, match load docs cwd s ru with Done (s', d0) => resolve_finish E ref "Schema" toks s' d0
                    | _ => ebind (load docs cwd s nref) (fun sd => resolve_finish E ref "Schema" toks (fst sd) (snd sd)) end = Done (s2, t)).
    { assert (Hdr : doc_at docs cwd ru = Some d) by (rewrite (Hru ru eq_refl); exact Hdb).
      destruct (load_complete s ru d Hs Hdr) as [s' Hl]. rewrite Hl. rewrite (finish_complete _ _ s' _ _ Hf). eexists; reflexivity. }
    destruct live as [[lu ld]|]; [|exact Hvia]. destruct (String.eqb ru lu) eqn:Eru; [|exact Hvia].
    apply String.eqb_eq in Eru. subst lu. pose proof (live_served ru ld eq_refl) as Hl. rewrite (Hru ru eq_refl), Hdb in Hl. inversion Hl; subst ld.
    rewrite (finish_complete _ _ s _ _ Hf). eexists; reflexivity.
  - destruct (String.eqb base ""); [exact Hby|].
    destruct (load_complete s base d Hs Hdb) as [s' Hl]. rewrite Hl. rewrite (finish_complete _ _ s' _ _ Hf). eexists; reflexivity.
Qed.

Lemma transitive_complete s rroot base ref nref br : (exists r, new_ref (s2l ref) = POk r) -> nuri ref base = POk nref -> new_ref (s2l base) = POk br ->
  exists rc, transitive s rroot base ref = Done rc.
Proof.
  intros [r Hr] Hn Hb. unfold transitive. rewrite Hr, Hn, Hb. cbn [pbind].
  destruct (is_root r || has_fragment_only r); [eexists; reflexivity|].
  destruct (str_prefix (l2s (ref_string br)) nref); eexists; reflexivity.
Qed.

Section WalkGood.
Variable follow : st -> list string -> option string -> string -> json -> eres (st * json).
Hypothesis Hfollow : forall s ps rr b t, G b t -> Inv docs rid s -> Coh cwd rr b ->
  good (follow s ps rr b t) /\ (forall s' t', follow s ps rr b t = Done (s', t') -> Inv docs rid s').

Lemma esr_good s parents rroot base m : G base (JObj m) -> has_ref m = true -> Inv docs rid s -> Coh cwd rroot base ->
  goodI (Inv docs rid) (expand_schema_ref E docs cwd OP ctx_base live follow s parents rroot base m).
Proof.
  intros Hg Hr Hs Hcoh. destruct (G_resolvable _ _ Hg Hr) as [nref [bt [br [Hn [Ht [Hb Hren]]]]]].
  unfold expand_schema_ref. rewrite Hn. cbn [pbind].
  pose proof (is_circular_Inv docs rid s nref parents Hs) as Hs1.
  destruct (is_circular s nref parents) as [s1 circ] eqn:Ec. cbn [fst] in Hs1. destruct circ.
  - destruct (Hren s1 (proj2 Hs1)) as [t1 [_ [Hk _]]]. rewrite Hk. cbn [pbind]. split; [exact I|]. intros s' a H. inversion H; subst. exact Hs1.
  - pose proof (is_circular_false _ _ _ _ Ec) as ->.
    assert (Hsame := G_same _ _ _ Hg Hr Hn).
    destruct (resolve_complete s rroot _ base nref bt Hs Hcoh Hn (fun Hl => Hsame (or_introl Hl)) Ht) as [s2 Hres]. rewrite Hres.
    destruct (resolve_sem E docs cwd live rid live_served _ _ _ _ _ _ _ Hs Hcoh Hn (fun Hl => Hsame (or_introl Hl)) Hres) as [Ht' Hs2].
    assert (Hnr : exists r, new_ref (s2l (get_str "$ref" m)) = POk r).
    { unfold sem_target in Ht. destruct (new_ref (s2l (get_str "$ref" m))) as [r| |]; try discriminate. eexists; reflexivity. }
    destruct (transitive_complete s2 rroot base _ nref br Hnr Hn Hb) as [rc Htr]. rewrite Htr. cbn [ebind].
    pose proof (transitive_coh cwd _ _ _ _ _ _ Hcoh Hn Hsame Htr) as Hcoh'.
    exact (Hfollow _ _ _ _ _ (G_target _ _ _ _ Hg Hr Ht') Hs2 Hcoh').
Qed.

Theorem walk_good : forall j s parents rroot base, G base j -> Inv docs rid s -> Coh cwd rroot base ->
  goodI (Inv docs rid) (walk E docs cwd OP ctx_base live follow j s parents rroot base).
Proof.
  intros j. remember (jsize j) as n eqn:En. revert j En.
  induction n as [n IH] using lt_wf_ind. intros j En s parents rroot base Hg Hs Hcoh. subst n.
  assert (Hid : forall x : json, goodI (Inv docs rid) (Done (s, x))) by (intros x; split; [exact I|intros s' a H; inversion H; subst; exact Hs]).
  destruct j as [| | | |l|m]; try apply Hid.
  cbn [walk]. destruct (G_plain _ _ Hg) as [Hidm Hne].
  destruct (match assoc "$ref" m with Some (JStr r) => String.eqb r "" | _ => false end) eqn:Eemp; [apply Hid|].
  unfold apply_id. rewrite Hidm. cbn [String.eqb].
  destruct (has_ref m) eqn:Hr.
  - destruct (negb (o_skip OP)).
    + apply esr_good; assumption.
    + destruct (G_resolvable _ _ Hg Hr) as [nref [bt [br [Hn [_ [_ Hren]]]]]]. rewrite Hn. cbn [pbind].
      destruct (Hren s (proj2 Hs)) as [t1 [t2 [_ Hk]]]. rewrite Hk. cbn [pbind]. apply Hid.
  - destruct (fold_members_good (fun x s0 => walk E docs cwd OP ctx_base live follow x s0 parents rroot base) (Inv docs rid)
                (fun x => jsize x < jsize (JObj m) /\ G base x)
                (fun x s0 Hd Hs0 => IH (jsize x) (proj1 Hd) x eq_refl s0 parents rroot base (proj2 Hd) Hs0 Hcoh)
                m s []) as [Hgd Hi].
    + intros k v x Hin Hc. split.
      * eapply Nat.le_lt_trans; [apply child_of_size; apply schema_child_child_of with (k := k); exact Hc|eapply jsize_value; exact Hin].
      * eapply G_child; [exact Hg|exact Hr|exact Hin|apply schema_child_child_of with (k := k); exact Hc].
    + exact Hs.
    + destruct (fold_members _ m s []) as [[s1 m1]|sf| |]; try (destruct Hgd); split; try exact I; try (intros; discriminate).
      intros s' a H. cbn [ebind fst snd] in H. inversion H; subst. eapply Hi. reflexivity.
Qed.
End WalkGood.

Theorem exp_good : forall d s parents rroot base j, G base j -> Inv docs rid s -> Coh cwd rroot base ->
  goodI (Inv docs rid) (exp E docs cwd OP ctx_base live d s parents rroot base j).
Proof.
  induction d as [|d IH]; intros s parents rroot base j Hg Hs Hcoh; cbn [exp]; [split; [exact I|intros; discriminate]|].
  apply walk_good; assumption.
Qed.

Hypothesis strict : o_cont OP = false.
(* with fuel above the number of references of the graph the expansion SUCCEEDS *)
Theorem exp_succeeds : forall U d s parents rroot base j,
  (forall x, holder_ref G x -> In x U) -> NoDup parents -> List.length U < d ->
  G base j -> Inv docs rid s -> Coh cwd rroot base ->
  exists s' j', exp E docs cwd OP ctx_base live d s parents rroot base j = Done (s', j').
Proof.
  intros U d s parents rroot base j HU Hnd Hlen Hg Hs Hcoh.
  destruct (exp_good d s parents rroot base j Hg Hs Hcoh) as [Hgd _].
  pose proof (exp_terminatesG E docs cwd OP ctx_base live rid live_served G G_child G_target G_plain G_same strict
                U d s parents rroot base j HU Hnd Hlen Hg Hs Hcoh) as Hno.
  destruct (exp E docs cwd OP ctx_base live d s parents rroot base j) as [[s' j']|sf| |]; try (destruct Hgd); [eexists; eexists; reflexivity|exfalso; apply Hno; reflexivity].
Qed.
End Complete.

(* ---------- resolvability decided on a finite list of nodes ---------- *)
Section CompleteCheck.
Variable E : env.
Variable docs : list (string * json).
Variable cwd : string.
Variable OP : opts.
Variable ctx_base : string.
Variable rid : string.
Variable nodes : list (string * json).

Definition is_pok {A} (p : presult A) : bool := match p with POk _ => true | _ => false end.
Definition resolvable_node (p : string * json) : bool :=
  match snd p with
  | JObj m =>
      if has_ref m then
        match nuri (get_str "$ref" m) (fst p) with
        | POk nref =>
            match sem_target E docs cwd (get_str "$ref" m) (fst p) with Some _ => true | None => false end
            && is_pok (new_ref (s2l (fst p)))
            && is_pok (render_kept OP ctx_base (ExpandSimCheck.s0 rid) nref) && is_pok (render_rebased ctx_base (ExpandSimCheck.s0 rid) nref)
        | _ => false
        end
      else true
  | _ => true
  end.
Definition check_resolvable : bool := forallb resolvable_node nodes.

Lemma GN_resolvable : check_resolvable = true -> forall b m, GN nodes b (JObj m) -> has_ref m = true ->
  exists nref bt br, nuri (get_str "$ref" m) b = POk nref /\ sem_target E docs cwd (get_str "$ref" m) b = Some bt
    /\ new_ref (s2l b) = POk br
    /\ (forall s, rootid s = rid -> exists t1 t2, render_kept OP ctx_base s nref = POk t1 /\ render_rebased ctx_base s nref = POk t2).
Proof.
  intros Hc b m Hg Hr. unfold check_resolvable in Hc. rewrite forallb_forall in Hc. specialize (Hc _ Hg).
  unfold resolvable_node in Hc. cbn [fst snd] in Hc. rewrite Hr in Hc.
  destruct (nuri (get_str "$ref" m) b) as [nref| |]; try discriminate.
  apply andb_true_iff in Hc. destruct Hc as [Hc H4]. apply andb_true_iff in Hc. destruct Hc as [Hc H3]. apply andb_true_iff in Hc. destruct Hc as [H1 H2].
  destruct (sem_target E docs cwd (get_str "$ref" m) b) as [bt|]; try discriminate.
  destruct (new_ref (s2l b)) as [br| |]; try discriminate.
  destruct (render_kept OP ctx_base (ExpandSimCheck.s0 rid) nref) as [t1| |] eqn:E1; try discriminate.
  destruct (render_rebased ctx_base (ExpandSimCheck.s0 rid) nref) as [t2| |] eqn:E2; try discriminate.
  exists nref, bt, br. repeat split. intros s Hs. exists t1, t2.
  rewrite (render_kept_state OP ctx_base rid s nref Hs), (render_rebased_state ctx_base rid s nref Hs). split; assumption.
Qed.

(* on a checked graph in which every reference is resolvable, fuel above the number of its references gives a RESULT:
   no spurious error, whatever the (consistent) cache holds and whatever root the resolver holds *)
Theorem checked_exp_succeeds (live : option (string * json)) :
  check_nodes E docs cwd OP ctx_base rid nodes = true -> check_resolvable = true ->
  (forall lu ld, live = Some (lu, ld) -> doc_at docs cwd lu = Some ld) ->
  o_cont OP = false ->
  forall d s parents rroot base j,
    NoDup parents -> List.length (refs_of nodes) < d ->
    GN nodes base j -> Inv docs rid s -> Coh cwd rroot base ->
    exists s' j', exp E docs cwd OP ctx_base live d s parents rroot base j = Done (s', j').
Proof.
  intros Hck Hres Hlive Hstrict d s parents rroot base j Hnd Hlen.
  exact (exp_succeeds E docs cwd OP ctx_base live rid Hlive (GN nodes)
           (GN_child E docs cwd OP ctx_base rid nodes Hck) (GN_target E docs cwd OP ctx_base rid nodes Hck)
           (GN_plain E docs cwd OP ctx_base rid nodes Hck) (GN_same E docs cwd OP ctx_base rid nodes Hck)
           (GN_resolvable Hres) Hstrict (refs_of nodes) d s parents rroot base j (holder_ref_refs_of nodes) Hnd Hlen).
Qed.
End CompleteCheck.
