(* JSON pointers as texts (RFC 6901 / RFC 3986 fragment), unbounded: writing a list of tokens as a pointer and reading the
   pointer gives the tokens back - whatever characters the tokens hold, "/" and "~" included - and for plain tokens the same
   holds through the whole reference text "#/t1/t2/..." as url.Parse reads it. *)
From Coq Require Import List String Ascii Bool Arith Lia.
From Spec Require Import Base.Json Base.Url Base.UrlFacts Base.UrlText Expand.Expand Expand.ExpandFacts.
Import ListNotations.
Local Open Scope char_scope.

Definition ptr_text (toks : list chars) : chars := flat_map (fun t => "/" :: escape_tok t) toks.

Lemma ptr_text_join toks : toks <> [] -> ptr_text toks = "/" :: join_with "/" (map escape_tok toks).
Proof.
  destruct toks as [|t r]; [contradiction|]. intros _. cbn [ptr_text flat_map map app]. f_equal.
  revert t. induction r as [|t2 r IH]; intros t; [cbn; apply app_nil_r|].
  cbn [flat_map map join_with app]. f_equal. f_equal. apply IH.
Qed.

Theorem ptr_tokens_of_text toks : ptr_tokens (ptr_text toks) = map l2s toks.
Proof.
  destruct toks as [|t r] eqn:E; [reflexivity|]. rewrite <- E.
  rewrite ptr_text_join by (rewrite E; discriminate). cbn [ptr_tokens].
  rewrite split_join.
  - rewrite map_map. apply map_ext. intros a. rewrite unescape_escape_tok. reflexivity.
  - rewrite E. discriminate.
  - apply Forall_forall. intros x Hx. apply in_map_iff in Hx. destruct Hx as [y [<- _]]. apply escape_tok_no_slash.
Qed.

(* through the reference text: "#" ++ pointer, read by url.Parse (as modelled), for tokens made of plain characters
   (letters, digits, - _ . and also "/" and "~", which the pointer syntax escapes as ~1 and ~0) *)
Definition tokchar (c : ascii) : bool := plain c || ceq c "/".

Lemma escape_tok_plain : forall t, forallb tokchar t = true -> forallb plain (escape_tok t) = true.
Proof.
  induction t as [|c r IH]; intros H; [reflexivity|]. cbn [forallb] in H. apply andb_true_iff in H. destruct H as [H1 H2].
  cbn [escape_tok]. destruct (Ascii.eqb c "~") eqn:E1.
  - cbn [forallb]. rewrite (IH H2). reflexivity.
  - destruct (Ascii.eqb c "/") eqn:E2.
    + cbn [forallb]. rewrite (IH H2). reflexivity.
    + cbn [forallb]. rewrite (IH H2), andb_true_r. unfold tokchar in H1. apply orb_true_iff in H1. destruct H1 as [H1|H1]; [exact H1|].
      unfold ceq in H1. rewrite H1 in E2. discriminate.
Qed.

Lemma ptr_text_pchar toks : Forall (fun t => forallb tokchar t = true) toks -> forallb pchar (ptr_text toks) = true.
Proof.
  induction toks as [|t r IH]; intros H; [reflexivity|]. inversion H; subst.
  cbn [ptr_text flat_map]. cbn [app forallb]. change (pchar "/") with true. cbn [andb].
  apply forallb_app_t; [|apply IH; assumption].
  apply (forallb_imp plain pchar); [apply plain_p | apply escape_tok_plain; assumption].
Qed.

Theorem fragment_reference_tokens toks : Forall (fun t => forallb tokchar t = true) toks ->
  match parse_url ("#" :: ptr_text toks) with
  | POk u => ptr_tokens (u_frag u) = map l2s toks /\ u_path u = [] /\ u_scheme u = [] /\ u_host u = []
  | _ => toks = []   (* "#" alone is the empty fragment: printed back as the empty text *)
  end.
Proof.
  intros H. destruct toks as [|t r] eqn:E.
  - vm_compute. repeat split.
  - rewrite <- E in *.
    assert (N : ptr_text toks <> []) by (rewrite E; discriminate).
    set (u := mkUrl [] [] [] [] false [] (ptr_text toks) [] false).
    assert (W : wf_plain u = true).
    { unfold wf_plain, u. cbn [u_scheme u_host u_path u_query u_frag u_rawpath u_rawfrag u_forceq u_omithost forallb is_nil nonempty negb andb orb has_prefix].
      rewrite (ptr_text_pchar toks H). reflexivity. }
    assert (P : print_url u = "#" :: ptr_text toks).
    { unfold print_url. rewrite (escaped_frag_plain u eq_refl (ptr_text_pchar toks H)).
      unfold u. cbn [u_scheme u_host u_path u_forceq u_query u_frag u_omithost nonempty orb andb app negb escaped_path u_rawpath chars_eqb escape is_abs cut fst mem_char existsb].
      destruct (ptr_text toks); [contradiction|reflexivity]. }
    rewrite <- P, (parse_print_plain u W). unfold u. cbn [u_frag u_path u_scheme u_host].
    repeat split. apply ptr_tokens_of_text.
Qed.

Example pointer_text_example :
  ptr_text [s2l "definitions"; s2l "a/b"; s2l "c~d"; s2l "~1"] = s2l "/definitions/a~1b/c~0d/~01"
  /\ ptr_tokens (s2l "/definitions/a~1b/c~0d/~01") = ["definitions"; "a/b"; "c~d"; "~1"]%string.
Proof. split; reflexivity. Qed.
