(* Executable model of the $ref expander and resolver (expander.go, schema_loader.go, resolver.go),
   working on JSON trees.  What is transcribed as it is: base-path threading, the parent stack and
   the shared memo of circular refs, the choice of root document per resolver (including the
   string-prefix test of transitiveResolver), deref chains (each hop continues in the document it landed in), the rebasing
   of kept refs, SkipSchemas / ContinueOnError / AbsoluteCircularRef, the document cache and the
   loader log, the pass through the typed decoding (norm) of every resolved target.
   What is abstracted (DESIGN.md section 4, C02): (a) sub-schemas are visited in the order of the
   members of the JSON object — an iteration-order oracle, Go visits keywords in a fixed order and
   map entries in a random one; (b) `#/...` references into the live root read the ORIGINAL root
   document, not the partially expanded one (the two are bisimilar; outputs on cyclic graphs are
   therefore compared through their unfoldings, outputs on acyclic graphs exactly).
   Recursion: the tree walk is structural; following a reference is the parameter [follow], closed
   by recursion on a fuel that only counts the nesting depth of followed references.
   Definitions only. *)
From Coq Require Import List String Ascii Bool Arith ZArith.
From Spec Require Import Base.Json Base.Url Codec.Types Codec.Codec.
Import ListNotations.
Local Open Scope string_scope.

Record opts := mkOpts { o_skip : bool; o_cont : bool; o_abs : bool }.

Record st := mkSt {
  memo : list string;               (* context.circulars *)
  cache : list (string * json);     (* the resolution cache: canonical URL -> document *)
  log : list string;                (* URLs requested from the loader, most recent first *)
  rootid : string;                  (* context.rootID *)
  dfail : bool }.                   (* the last resolution failed while DECODING the target (it was found) *)

Definition set_memo (s : st) (m : list string) := mkSt m (cache s) (log s) (rootid s) (dfail s).
Definition set_cache (s : st) (c : list (string * json)) := mkSt (memo s) c (log s) (rootid s) (dfail s).
Definition set_dfail (s : st) (b : bool) := mkSt (memo s) (cache s) (log s) (rootid s) b.

(* [Failed sf]: an error; sf is the state at that point — cache, memo and loader log persist (they are
   shared mutable objects in the Go code), and a refused request is logged too *)
Inductive eres (A : Type) := Done (a : A) | Failed (sf : st) | OOF | Unsup.
Arguments Done {A}. Arguments Failed {A}. Arguments OOF {A}. Arguments Unsup {A}.

Definition ebind {A B} (r : eres A) (f : A -> eres B) : eres B :=
  match r with Done a => f a | Failed sf => Failed sf | OOF => OOF | Unsup => Unsup end.


(* ---------- JSON pointers (RFC 6901 as jsonpointer v0.21.1 implements it) ---------- *)
Fixpoint unescape_tok (s : chars) : chars :=   (* "~1" -> "/", then "~0" -> "~" *)
  match s with
  | "~"%char :: "1"%char :: r => "/"%char :: unescape_tok r
  | "~"%char :: "0"%char :: r => "~"%char :: unescape_tok r
  | c :: r => c :: unescape_tok r
  | [] => []
  end.

(* tokens of the (already percent-decoded) fragment; a fragment not starting with "/" is no pointer *)
Definition ptr_tokens (frag : chars) : list string :=
  match frag with
  | "/"%char :: r => map (fun t => l2s (unescape_tok t)) (split_on "/"%char r)
  | _ => []
  end.

Fixpoint nth_json (l : list json) (n : nat) : option json :=
  match l, n with
  | x :: _, O => Some x
  | _ :: r, S k => nth_json r k
  | [], _ => None
  end.

Definition index_of (t : string) : option nat :=
  match s2l t with
  | [] => None
  | cs => if forallb is_digit cs then
            match digits_val cs 0 with Some z => Some (Z.to_nat z) | None => None end
          else None
  end.

Fixpoint ptr_get (toks : list string) (j : json) : option json :=
  match toks with
  | [] => Some j
  | t :: r =>
      match j with
      | JObj m => match assoc t m with Some v => ptr_get r v | None => None end
      | JArr l => match index_of t with
                  | Some n => match nth_json l n with Some v => ptr_get r v | None => None end
                  | None => None
                  end
      | _ => None
      end
  end.

(* ---------- object helpers ---------- *)
Definition get_str (k : string) (m : list (string * json)) : string :=
  match assoc k m with Some (JStr s) => s | _ => "" end.
Definition has_ref (m : list (string * json)) : bool :=
  match assoc "$ref" m with Some (JStr _) => true | _ => false end.
Fixpoint set_member (k : string) (v : json) (m : list (string * json)) : list (string * json) :=
  match m with
  | [] => [(k, v)]
  | (k', v') :: r => if String.eqb k k' then (k, v) :: r else (k', v') :: set_member k v r
  end.

(* ---------- URL wrappers ---------- *)
Definition pbind {A B} (sf : st) (p : presult A) (f : A -> eres B) : eres B :=
  match p with POk a => f a | PErr => Failed sf | PUnsupported => Unsup end.
Definition nuri (r b : string) : presult string :=
  match normalize_uri (s2l r) (s2l b) with POk x => POk (l2s x) | PErr => PErr | PUnsupported => PUnsupported end.
Definition nbase (cwd b : string) : presult string :=
  match normalize_base (s2l cwd) (s2l b) with POk x => POk (l2s x) | PErr => PErr | PUnsupported => PUnsupported end.
Definition strip_frag (u : string) : string := l2s (fst (cut "#"%char (s2l u))).
Definition str_prefix (p s : string) : bool := has_prefix (s2l p) (s2l s).

(* ---------- generic traversals (defined outside the walk, so that facts about them are generic).
   The function parameter is a Section variable: the folds are then `fun W => fix ...`, which is
   what lets Coq's guard checker see through them when the walk passes itself. ---------- *)
Section Folds.
Variable W : json -> st -> eres (st * json).
(* apply W to every element that is an object, threading the state *)
Fixpoint fold_elems (l : list json) (s : st) (out : list json) : eres (st * list json) :=
  match l with
  | [] => Done (s, rev out)
  | x :: r => match x with
              | JObj _ => match W x s with
                          | Done (s', x') => fold_elems r s' (x' :: out)
                          | Failed sf => Failed sf | OOF => OOF | Unsup => Unsup
                          end
              | _ => fold_elems r s (x :: out)
              end
  end.
Fixpoint fold_values (l : list (string * json)) (s : st) (out : list (string * json)) : eres (st * list (string * json)) :=
  match l with
  | [] => Done (s, rev out)
  | (k, x) :: r => match x with
                   | JObj _ => match W x s with
                               | Done (s', x') => fold_values r s' ((k, x') :: out)
                               | Failed sf => Failed sf | OOF => OOF | Unsup => Unsup
                               end
                   | _ => fold_values r s ((k, x) :: out)
                   end
  end.
(* one member of a schema object: which keywords hold sub-schemas, and in which shape *)
Definition child_step (k : string) (v : json) (s : st) : eres (st * json) :=
  if mem_str k ["definitions"; "properties"; "patternProperties"; "dependencies"] then
    match v with
    | JObj vm => match fold_values vm s [] with
                 | Done (s', vm') => Done (s', JObj vm') | Failed sf => Failed sf | OOF => OOF | Unsup => Unsup end
    | _ => Done (s, v)
    end
  else if mem_str k ["allOf"; "anyOf"; "oneOf"] then
    match v with
    | JArr l => match fold_elems l s [] with
                | Done (s', l') => Done (s', JArr l') | Failed sf => Failed sf | OOF => OOF | Unsup => Unsup end
    | _ => Done (s, v)
    end
  else if String.eqb k "items" then
    match v with
    | JArr l => match fold_elems l s [] with
                | Done (s', l') => Done (s', JArr l') | Failed sf => Failed sf | OOF => OOF | Unsup => Unsup end
    | JObj _ => W v s
    | _ => Done (s, v)
    end
  else if mem_str k ["not"; "additionalProperties"; "additionalItems"] then
    match v with JObj _ => W v s | _ => Done (s, v) end
  else Done (s, v).
Fixpoint fold_members (m : list (string * json)) (s : st) (out : list (string * json)) : eres (st * list (string * json)) :=
  match m with
  | [] => Done (s, rev out)
  | (k, v) :: r => match child_step k v s with
                   | Done (s', v') => fold_members r s' ((k, v') :: out)
                   | Failed sf => Failed sf | OOF => OOF | Unsup => Unsup
                   end
  end.
End Folds.

Section Model.
Variable E : env.                         (* codec tables: resolved targets go through the typed decoding *)
Variable docs : list (string * json).     (* what the loader serves, by canonical URL *)
Variable cwd : string.
Variable OP : opts.
Variable ctx_base : string.               (* context.basePath: the root location *)
Variable live : option (string * json).   (* the typed root a resolver may hold (ExpandSpec, *WithRoot): never loaded *)

(* schemaLoader.load: cache first, then the loader (every request is logged, refused ones too) *)
Definition load (s : st) (u : string) : eres (st * json) :=
  pbind s (nbase cwd (strip_frag u)) (fun n =>
    match assoc n (cache s) with
    | Some d => Done (s, d)
    | None => match assoc n docs with
              | Some d => Done (mkSt (memo s) ((n, d) :: cache s) (n :: log s) (rootid s) false, d)
              | None => Failed (mkSt (memo s) (cache s) (n :: log s) (rootid s) false)
              end
    end).

(* the tail of resolveRef: evaluate the pointer, then the typed decoding (DynamicJSONToStruct) *)
Definition resolve_finish (ref kind : string) (toks : list string) (s' : st) (data : json) : eres (st * json) :=
  match (if String.eqb ref "" then Some data else ptr_get toks data) with
  | None => Failed (set_dfail s' false)
  | Some res => match res with
                | JObj _ => match norm E false res (TNamed kind) with
                            | ROk v => Done (set_dfail s' false, v)
                            | RErr => Failed (set_dfail s' true)
                            | RUnsup => Unsup
                            end
                | _ => Failed (set_dfail s' true)     (* a string, number, boolean or array where an object is expected *)
                end
  end.

(* resolveRef: [rroot] is the URL of the document the resolver holds as its root (None: no root) *)
Definition resolve (s : st) (rroot : option string) (ref base kind : string) : eres (st * json) :=
  pbind s (new_ref (s2l ref)) (fun r =>
    let local := is_root r || has_fragment_only r in
    let finish := resolve_finish ref kind (ptr_tokens (u_frag (r_url r))) in
    let by_url :=
      pbind s (nuri ref base) (fun full => ebind (load s full) (fun sd => finish (fst sd) (snd sd))) in
    if local then
      match rroot with
      | Some ru =>
          match live with
          | Some (lu, ld) => if String.eqb ru lu then finish s ld
                             else match load s ru with Done (s', d) => finish s' d | _ => by_url end
          | None => match load s ru with Done (s', d) => finish s' d | _ => by_url end
          end
      | None => if String.eqb base "" then by_url
                else match load s base with
                     | Done (s', d) => finish s' d
                     | _ => by_url
                     end
      end
    else by_url).

(* isCircular: memo first, then the parent stack (which then feeds the memo) *)
Definition is_circular (s : st) (nref : string) (parents : list string) : st * bool :=
  if mem_str nref (memo s) then (s, true)
  else if mem_str nref parents then (set_memo s (nref :: memo s), true)
  else (s, false).

(* how a kept (circular) ref is written *)
Definition render_kept (s : st) (nref : string) : presult string :=
  if o_abs OP then POk nref
  else match new_ref (s2l nref) with
       | POk r => match denormalize_ref r (s2l ctx_base) (s2l (rootid s)) with
                  | POk r' => POk (l2s (ref_string r'))
                  | PErr => PErr | PUnsupported => PUnsupported
                  end
       | PErr => PErr | PUnsupported => PUnsupported
       end.
Definition render_rebased (s : st) (nref : string) : presult string :=   (* SkipSchemas: always relative to the root *)
  match new_ref (s2l nref) with
  | POk r => match denormalize_ref r (s2l ctx_base) (s2l (rootid s)) with
             | POk r' => POk (l2s (ref_string r'))
             | PErr => PErr | PUnsupported => PUnsupported
             end
  | PErr => PErr | PUnsupported => PUnsupported
  end.

(* transitiveResolver: the new resolver's root, and whether a new resolver was made *)
Definition transitive (s : st) (rroot : option string) (base ref : string) : eres (option string * bool) :=
  pbind s (new_ref (s2l ref)) (fun r =>
    if is_root r || has_fragment_only r then Done (rroot, false)
    else pbind s (nuri ref base) (fun cur =>
      pbind s (new_ref (s2l base)) (fun br =>
        if str_prefix (l2s (ref_string br)) cur then Done (rroot, false)
        else let doc := strip_frag cur in
             Done ((match assoc doc (cache s) with Some _ => Some doc | None => None end), true)))).

Section Walk.
(* following a reference: expandSchema on a resolved target (not a sub-term of the input) *)
Variable follow : st -> list string -> option string -> string -> json -> eres (st * json).

(* the `id` of a schema re-scopes its children (setSchemaID) *)
Definition apply_id (s : st) (m : list (string * json)) (base : string) : eres (st * string) :=
  let id := get_str "id" m in
  if String.eqb id "" then Done (s, base)
  else
    let refp := if has_suffix ["/"%char] (s2l id) then id ++ "placeholder.json" else id in
    pbind s (nuri refp base) (fun nb =>
      let s1 := set_cache s ((nb, JObj m) :: cache s) in
      let s2 := if String.eqb base ctx_base then mkSt (memo s1) (cache s1) (log s1) nb (dfail s1) else s1 in
      Done (s2, nb)).

(* expandSchemaRef *)
Definition expand_schema_ref (s : st) (parents : list string) (rroot : option string) (base : string)
           (m : list (string * json)) : eres (st * json) :=
  let ref := get_str "$ref" m in
  pbind s (nuri ref base) (fun nref =>
    let '(s1, circ) := is_circular s nref parents in
    if circ then
      pbind s1 (render_kept s1 nref) (fun txt => Done (s1, JObj (set_member "$ref" (JStr txt) m)))
    else
      match resolve s1 rroot ref base "Schema" with
      | Done (s2, t) =>
          ebind (transitive s2 rroot base ref) (fun rc => follow s2 (parents ++ [nref])%list (fst rc) (strip_frag nref) t)
      | Failed sf =>
          if o_cont OP then
            (* the holder is left as it was, whatever made the resolution fail: a missing document or pointer, or a target
               of the wrong JSON type (json.Unmarshal allocates the *Schema before it fails on such a target; since the
               repair of F22 the error, not the nil test, decides) *)
            if dfail sf then Done (set_dfail sf false, JObj m) else Done (sf, JObj m)
          else Failed sf
      | OOF => OOF
      | Unsup => Unsup
      end).

(* expandSchema, structural on the schema; sub-schemas in member order *)
Fixpoint walk (j : json) (s : st) (parents : list string) (rroot : option string) (base : string) {struct j} : eres (st * json) :=
  match j with
  | JObj m =>
      if match assoc "$ref" m with Some (JStr r) => String.eqb r "" | _ => false end then
        Done (s, JObj (set_member "$ref" (JStr base) m))      (* {"$ref": ""}: the current document *)
      else
      match apply_id s m base with
      | Done (s0, base0) =>
          if has_ref m then
            if negb (o_skip OP) then expand_schema_ref s0 parents rroot base0 m
            else
              pbind s0 (nuri (get_str "$ref" m) base0) (fun nref =>
                pbind s0 (render_rebased s0 nref) (fun txt => Done (s0, JObj (set_member "$ref" (JStr txt) m))))
          else
            ebind (fold_members (fun x s' => walk x s' parents rroot base0) m s0 [])
                  (fun r => Done (fst r, JObj (snd r)))
      | Failed sf => Failed sf | OOF => OOF | Unsup => Unsup
      end
  | _ => Done (s, j)
  end.

(* deref: follow a chain of parameter / response / path-item references.  Every hop continues with the resolver and
   the base of the document it landed in (transitiveResolver / updateBasePath).  Returns the holder after dereferencing
   — a `$ref` member is left on it only when the chain was cut as circular — and the resolver root and base to go on with. *)
Fixpoint deref (fuel : nat) (s : st) (parents : list string) (rroot : option string) (base kind : string)
         (m : list (string * json)) : eres (st * list (string * json) * option string * string) :=
  let cur := get_str "$ref" m in
  if String.eqb cur "" then Done (s, m, rroot, base)
  else match fuel with
       | O => OOF
       | S f =>
           pbind s (nuri cur base) (fun nref =>
             let '(s1, circ) := is_circular s nref parents in
             if circ then Done (s1, m, rroot, base)
             else
               (* the holder's own reference is cleared before the target is decoded into it *)
               let m0 := remove_key "$ref" m in
               let continue_with (s2 : st) (holder : list (string * json)) :=
                 ebind (transitive s2 rroot base cur) (fun rc =>
                   deref f s2 (parents ++ [nref])%list (fst rc) (if snd rc then strip_frag nref else base) kind holder) in
               match resolve s1 rroot cur base kind with
               | Done (s2, JObj t) =>
                   (* json.Unmarshal into the existing holder: the target's members win *)
                   continue_with s2 (fold_left (fun acc kv => set_member (fst kv) (snd kv) acc) t m0)
               | Done (s2, _) => Failed s2
               | Failed sf => if o_cont OP then continue_with sf m0 else Failed sf
               | OOF => OOF
               | Unsup => Unsup
               end)
       end.

(* expandParameterOrResponse on an object of kind Parameter / Response *)
Definition expand_por (fuel : nat) (s : st) (rroot : option string) (base kind : string) (j : json) : eres (st * json) :=
  match j with
  | JObj m =>
      ebind (deref fuel s [] rroot base kind m) (fun r1 =>
        let '(s1, m1, rroot1, base1) := r1 in
        let m2 := remove_key "$ref" m1 in
        match assoc "schema" m2 with
        | Some (JObj sm) =>
            ebind (follow s1 [] rroot1 base1 (JObj sm)) (fun r3 => Done (fst r3, JObj (set_member "schema" (snd r3) m2)))
        | _ => Done (s1, JObj m2)
        end)
  | _ => Done (s, j)
  end.

Fixpoint fold_por (fuel : nat) (l : list json) (s : st) (rroot : option string) (base kind : string) (out : list json) : eres (st * list json) :=
  match l with
  | [] => Done (s, rev out)
  | x :: r => ebind (expand_por fuel s rroot base kind x) (fun sx => fold_por fuel r (fst sx) rroot base kind (snd sx :: out))
  end.

Fixpoint fold_por_map (fuel : nat) (l : list (string * json)) (s : st) (rroot : option string) (base kind : string)
         (out : list (string * json)) : eres (st * list (string * json)) :=
  match l with
  | [] => Done (s, rev out)
  | (k, x) :: r =>
      if has_x_prefix_ci k then fold_por_map fuel r s rroot base kind ((k, x) :: out)
      else ebind (expand_por fuel s rroot base kind x) (fun sx => fold_por_map fuel r (fst sx) rroot base kind ((k, snd sx) :: out))
  end.

(* expandOperation *)
Definition expand_operation (fuel : nat) (s : st) (rroot : option string) (base : string) (j : json) : eres (st * json) :=
  match j with
  | JObj m =>
      let step1 : eres (st * list (string * json)) :=
        match assoc "parameters" m with
        | Some (JArr ps) => ebind (fold_por fuel ps s rroot base "Parameter" []) (fun sp => Done (fst sp, set_member "parameters" (JArr (snd sp)) m))
        | _ => Done (s, m)
        end in
      ebind step1 (fun sm =>
        match assoc "responses" (snd sm) with
        | Some (JObj rs) => ebind (fold_por_map fuel rs (fst sm) rroot base "Response" [])
                                  (fun sr => Done (fst sr, JObj (set_member "responses" (JObj (snd sr)) (snd sm))))
        | _ => Done (fst sm, JObj (snd sm))
        end)
  | _ => Done (s, j)
  end.

Definition op_names : list string := ["get"; "head"; "options"; "put"; "post"; "patch"; "delete"].

(* expandPathItem *)
Definition expand_path_item (fuel : nat) (s : st) (rroot : option string) (base : string) (j : json) : eres (st * json) :=
  match j with
  | JObj m =>
      ebind (deref fuel s [] rroot base "PathItem" m) (fun r1 =>
        let '(s1, m1, rroot1, base1) := r1 in
          let m2 := remove_key "$ref" m1 in
          let step1 : eres (st * list (string * json)) :=
            match assoc "parameters" m2 with
            | Some (JArr ps) => ebind (fold_por fuel ps s1 rroot1 base1 "Parameter" []) (fun sp => Done (fst sp, set_member "parameters" (JArr (snd sp)) m2))
            | _ => Done (s1, m2)
            end in
          let ops := fold_left (fun acc op =>
                       ebind acc (fun sm =>
                         match assoc op (snd sm) with
                         | Some o => ebind (expand_operation fuel (fst sm) rroot1 base1 o) (fun so => Done (fst so, set_member op (snd so) (snd sm)))
                         | None => Done sm
                         end)) op_names step1 in
          ebind ops (fun sm => Done (fst sm, JObj (snd sm))))
  | _ => Done (s, j)
  end.

(* ExpandSpec over the root document (members in the order of the JSON object) *)
Definition map_values (f : st -> json -> eres (st * json)) (l : list (string * json)) (s : st) : eres (st * list (string * json)) :=
  fold_left (fun acc kv => ebind acc (fun so => ebind (f (fst so) (snd kv)) (fun sv => Done (fst sv, (snd so ++ [(fst kv, snd sv)])%list))))
            l (Done (s, [])).

(* one section of the root document: every entry through f, in the order of the JSON object *)
Definition section_step (k : string) (f : st -> string -> json -> eres (st * json))
           (acc : eres (st * list (string * json))) : eres (st * list (string * json)) :=
  ebind acc (fun sm =>
    match assoc k (snd sm) with
    | Some (JObj vm) =>
        ebind (fold_left (fun acc2 dv => ebind acc2 (fun so2 =>
                            ebind (f (fst so2) (fst dv) (snd dv)) (fun sv => Done (fst sv, (snd so2 ++ [(fst dv, snd sv)])%list))))
                         vm (Done (fst sm, [])))
              (fun sv => Done (fst sv, set_member k (JObj (snd sv)) (snd sm)))
    | _ => Done sm
    end).

Definition expand_spec_with (fuel : nat) (root_url : string) (root : json) (s : st) : eres (st * json) :=
  match root with
  | JObj m =>
      let rr := Some root_url in
      (* the four sections in the order ExpandSpec visits them *)
      let r0 : eres (st * list (string * json)) := Done (s, m) in
      let r1 := if o_skip OP then r0
                else section_step "definitions" (fun s k v => walk v s ["#/definitions/" ++ k] rr ctx_base) r0 in
      let r2 := section_step "parameters" (fun s _ v => expand_por fuel s rr ctx_base "Parameter" v) r1 in
      let r3 := section_step "responses" (fun s _ v => expand_por fuel s rr ctx_base "Response" v) r2 in
      let r4 := section_step "paths" (fun s k v => if has_x_prefix_ci k then Done (s, v)
                                                   else match v with JObj _ => expand_path_item fuel s rr ctx_base v | _ => Done (s, v) end) r3 in
      ebind r4 (fun sm => Done (fst sm, JObj (snd sm)))
  | _ => Failed s
  end.
End Walk.

(* closing the recursion: fuel = nesting depth of followed references *)
Fixpoint exp (d : nat) (s : st) (parents : list string) (rroot : option string) (base : string) (j : json) : eres (st * json) :=
  match d with
  | O => OOF
  | S d' => walk (exp d') j s parents rroot base
  end.

Definition expand_spec (d : nat) (root_url : string) (root : json) (s : st) : eres (st * json) :=
  expand_spec_with (exp d) (S d) root_url root s.

(* the single-element entry points: set-up code around the same core.
   ExpandSchema(schema, root, cache): the root is put in the cache under the pseudo location ".root" (baseForRoot) and
   the loader has no root of its own; ExpandSchemaWithBasePath: no root at all, only a base location;
   Expand{Parameter,Response}WithRoot: the root is cached AND held by the loader. *)
Definition state_with_root (pseudo : string) (root : json) (c0 : list (string * json)) : st :=
  mkSt [] ((pseudo, root) :: c0) [] "" false.
Definition state_plain (c0 : list (string * json)) : st := mkSt [] c0 [] "" false.

Definition expand_schema_with_root (d : nat) (pseudo : string) (root : json) (c0 : list (string * json)) (j : json) :=
  exp d (state_with_root pseudo root c0) [] None pseudo j.
Definition expand_schema_with_base (d : nat) (base : string) (c0 : list (string * json)) (j : json) :=
  exp d (state_plain c0) [] None base j.
Definition expand_element_with_root (d : nat) (pseudo : string) (root : json) (c0 : list (string * json)) (kind : string) (j : json) :=
  expand_por (exp d) (S d) (state_with_root pseudo root c0) (Some pseudo) pseudo kind j.
Definition expand_element_with_base (d : nat) (base : string) (c0 : list (string * json)) (kind : string) (j : json) :=
  expand_por (exp d) (S d) (state_plain c0) None base kind j.
End Model.
