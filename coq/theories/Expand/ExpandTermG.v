(* Termination relative to the reference graph (C04).  ExpandFacts.exp_oof says that running out of fuel d exhibits d
   pairwise distinct canonical references nested in one another; here the references are shown to be references OF THE
   GRAPH — canonical forms of `$ref`s held by located schemas reachable from the start — so that for a finite graph the
   fuel "number of distinct references of the graph + 1" is never exhausted.  (A bound in terms of ALL canonical
   references would be empty: there are infinitely many.) *)
From Coq Require Import List String Ascii Bool Arith Lia.
From Spec Require Import Base.Json Base.JsonFacts Base.Url Base.UrlFacts Codec.Types Codec.Codec
  Expand.Expand Expand.ExpandFacts Expand.ExpandSim Expand.ExpandSimCheck Expand.ExpandCycle Expand.ExpandElem.
Import ListNotations.
Local Open Scope string_scope.

(* where an OutOfFuel of a fold comes from, when the calls keep an invariant of the state *)
Section FoldOofI.
Variable W : json -> st -> eres (st * json).
Variable Iv : st -> Prop.
Variable Dom : json -> Prop.
Variable Q : Prop.
Hypothesis HW : forall x s, Dom x -> Iv s -> (W x s = OOF -> Q) /\ (forall s' x', W x s = Done (s', x') -> Iv s').

Lemma fold_elems_oofI : forall l s out, (forall x, In x l -> Dom x) -> Iv s ->
  (fold_elems W l s out = OOF -> Q) /\ (forall s' l', fold_elems W l s out = Done (s', l') -> Iv s').
Proof.
  induction l as [|x r IH]; intros s out Hd Hs; cbn [fold_elems].
  - split; [discriminate|]. intros s' l' H. inversion H; subst. exact Hs.
  - assert (Hr : forall y, In y r -> Dom y) by (intros y Hy; apply Hd; right; exact Hy).
    destruct x as [| | | |lx|mx]; try (apply IH; assumption).
    destruct (HW (JObj mx) s (Hd _ (or_introl eq_refl)) Hs) as [Ho Hi].
    destruct (W (JObj mx) s) as [[s1 x']|sf| |]; try (split; [discriminate|intros; discriminate]).
    + apply IH; [exact Hr|eapply Hi; reflexivity].
    + split; [intros _; apply Ho; reflexivity|intros; discriminate].
Qed.
Lemma fold_values_oofI : forall l s out, (forall k x, In (k, x) l -> Dom x) -> Iv s ->
  (fold_values W l s out = OOF -> Q) /\ (forall s' l', fold_values W l s out = Done (s', l') -> Iv s').
Proof.
  induction l as [|[k x] r IH]; intros s out Hd Hs; cbn [fold_values].
  - split; [discriminate|]. intros s' l' H. inversion H; subst. exact Hs.
  - assert (Hr : forall k' y, In (k', y) r -> Dom y) by (intros k' y Hy; eapply Hd; right; exact Hy).
    destruct x as [| | | |lx|mx]; try (apply IH; assumption).
    destruct (HW (JObj mx) s (Hd k _ (or_introl eq_refl)) Hs) as [Ho Hi].
    destruct (W (JObj mx) s) as [[s1 x']|sf| |]; try (split; [discriminate|intros; discriminate]).
    + apply IH; [exact Hr|eapply Hi; reflexivity].
    + split; [intros _; apply Ho; reflexivity|intros; discriminate].
Qed.
Lemma child_step_oofI k v s : (forall x, schema_child k v x -> Dom x) -> Iv s ->
  (child_step W k v s = OOF -> Q) /\ (forall s' v', child_step W k v s = Done (s', v') -> Iv s').
Proof.
  intros Hd Hs. unfold child_step.
  assert (Hid : forall j : json, (Done (s, j) = OOF -> Q) /\ (forall s' v', @Done (st * json) (s, j) = Done (s', v') -> Iv s'))
    by (intros j; split; [discriminate|intros s' v' H; inversion H; subst; exact Hs]).
  destruct (mem_str k ["definitions"; "properties"; "patternProperties"; "dependencies"]) eqn:E1.
  { destruct v as [| | | |l|vm]; try apply Hid.
    destruct (fold_values_oofI vm s [] (fun k' x Hin => Hd x (sc_map k vm k' x E1 Hin)) Hs) as [Ho Hi].
    destruct (fold_values W vm s []) as [[s1 vm']|sf| |]; split; try discriminate; try (intros; discriminate).
    - intros s' v' H. inversion H; subst. eapply Hi. reflexivity.
    - intros _. apply Ho. reflexivity. }
  destruct (mem_str k ["allOf"; "anyOf"; "oneOf"]) eqn:E2.
  { destruct v as [| | | |l|vm]; try apply Hid.
    destruct (fold_elems_oofI l s [] (fun x Hin => Hd x (sc_arr k l x E1 E2 Hin)) Hs) as [Ho Hi].
    destruct (fold_elems W l s []) as [[s1 l']|sf| |]; split; try discriminate; try (intros; discriminate).
    - intros s' v' H. inversion H; subst. eapply Hi. reflexivity.
    - intros _. apply Ho. reflexivity. }
  destruct (String.eqb k "items") eqn:E3.
  { destruct v as [| | | |l|vm]; try apply Hid.
    - destruct (fold_elems_oofI l s [] (fun x Hin => Hd x (sc_items_arr k l x E1 E2 E3 Hin)) Hs) as [Ho Hi].
      destruct (fold_elems W l s []) as [[s1 l']|sf| |]; split; try discriminate; try (intros; discriminate).
      + intros s' v' H. inversion H; subst. eapply Hi. reflexivity.
      + intros _. apply Ho. reflexivity.
    - exact (HW _ _ (Hd _ (sc_items_obj k vm E1 E2 E3)) Hs). }
  destruct (mem_str k ["not"; "additionalProperties"; "additionalItems"]) eqn:E4.
  { destruct v as [| | | |l|vm]; try apply Hid. exact (HW _ _ (Hd _ (sc_single k vm E1 E2 E3 E4)) Hs). }
  apply Hid.
Qed.
Lemma fold_members_oofI : forall m s out, (forall k v x, In (k, v) m -> schema_child k v x -> Dom x) -> Iv s ->
  (fold_members W m s out = OOF -> Q) /\ (forall s' m', fold_members W m s out = Done (s', m') -> Iv s').
Proof.
  induction m as [|[k v] r IH]; intros s out Hd Hs; cbn [fold_members].
  - split; [discriminate|]. intros s' m' H. inversion H; subst. exact Hs.
  - destruct (child_step_oofI k v s (fun x Hx => Hd k v x (or_introl eq_refl) Hx) Hs) as [Ho Hi].
    destruct (child_step W k v s) as [[s1 v']|sf| |]; try (split; [discriminate|intros; discriminate]).
    + apply IH; [intros k' v0 x Hin Hx; exact (Hd k' v0 x (or_intror Hin) Hx)|eapply Hi; reflexivity].
    + split; [intros _; apply Ho; reflexivity|intros; discriminate].
Qed.
End FoldOofI.

Section TermG.
Variable E : env.
Variable docs : list (string * json).
Variable cwd : string.
Variable OP : opts.
Variable ctx_base : string.
Variable live : option (string * json).
Variable rid : string.
Hypothesis live_served : forall lu ld, live = Some (lu, ld) -> doc_at docs cwd lu = Some ld.
Variable G : string -> json -> Prop.
Hypothesis G_child : forall b m k v x, G b (JObj m) -> has_ref m = false -> In (k, v) m -> child_of x v -> G b x.
Hypothesis G_target : forall b m b' t, G b (JObj m) -> has_ref m = true -> sem_target E docs cwd (get_str "$ref" m) b = Some (b', t) -> G b' t.
Hypothesis G_plain : forall b m, G b (JObj m) -> get_str "id" m = "" /\ assoc "$ref" m <> Some (JStr "").
Hypothesis G_same : forall b m nref, G b (JObj m) -> has_ref m = true -> nuri (get_str "$ref" m) b = POk nref ->
  keeps_resolver (get_str "$ref" m) b nref -> nbase cwd (strip_frag nref) = nbase cwd (strip_frag b).
Hypothesis strict : o_cont OP = false.

(* a reference of the graph: the canonical form of the `$ref` of some located schema of G *)
Definition holder_ref (x : string) : Prop :=
  exists b m, G b (JObj m) /\ has_ref m = true /\ nuri (get_str "$ref" m) b = POk x.

Section WalkOofG.
Variable follow : st -> list string -> option string -> string -> json -> eres (st * json).
Definition from_follow_G (parents : list string) : Prop :=
  exists s' nref rr' b' t, holder_ref nref /\ ~ In nref parents /\ G b' t /\ Inv docs rid s' /\ Coh cwd rr' b'
    /\ follow s' (parents ++ [nref])%list rr' b' t = OOF.
Hypothesis Hfollow_inv : forall s ps rr b t s' t', G b t -> Inv docs rid s -> Coh cwd rr b -> follow s ps rr b t = Done (s', t') -> Inv docs rid s'.

Lemma esr_oofG s parents rroot base m : G base (JObj m) -> has_ref m = true -> Inv docs rid s -> Coh cwd rroot base ->
  (expand_schema_ref E docs cwd OP ctx_base live follow s parents rroot base m = OOF -> from_follow_G parents)
  /\ (forall s' j', expand_schema_ref E docs cwd OP ctx_base live follow s parents rroot base m = Done (s', j') -> Inv docs rid s').
Proof.
  intros Hg Hr Hs Hcoh. unfold expand_schema_ref.
  destruct (nuri (get_str "$ref" m) base) as [nref| |] eqn:En; cbn [pbind]; try (split; [discriminate|intros; discriminate]).
  pose proof (is_circular_Inv docs rid s nref parents Hs) as Hs1.
  destruct (is_circular s nref parents) as [s1 circ] eqn:Ec. cbn [fst] in Hs1. destruct circ.
  - destruct (render_kept OP ctx_base s1 nref); cbn [pbind]; split; try discriminate; try (intros; discriminate).
    intros s' j' H. inversion H; subst. exact Hs1.
  - pose proof (is_circular_false _ _ _ _ Ec) as Es. subst s1.
    assert (Hsame := G_same _ _ _ Hg Hr En).
    destruct (resolve E docs cwd live s rroot (get_str "$ref" m) base "Schema") as [[s2 t]|sf| |] eqn:Eres.
    + destruct (resolve_sem E docs cwd live rid live_served _ _ _ _ _ _ _ Hs Hcoh En (fun Hl => Hsame (or_introl Hl)) Eres) as [Ht Hs2].
      destruct (transitive s2 rroot base (get_str "$ref" m)) as [rc|sf| |] eqn:Etr; cbn [ebind]; try (split; [discriminate|intros; discriminate]).
      * pose proof (transitive_coh cwd _ _ _ _ _ _ Hcoh En Hsame Etr) as Hcoh'.
        pose proof (G_target _ _ _ _ Hg Hr Ht) as Hg'. split.
        -- intros H. exists s2, nref, (fst rc), (strip_frag nref), t. split; [exists base, m; auto|].
           split; [eapply is_circular_fresh; exact Ec|]. split; [exact Hg'|split; [exact Hs2|split; [exact Hcoh'|exact H]]].
        -- intros s' j' H. eapply Hfollow_inv; eassumption.
      * exfalso. eapply transitive_not_oof. exact Etr.
    + rewrite strict. split; [discriminate|intros; discriminate].
    + exfalso. eapply resolve_not_oof. exact Eres.
    + split; [discriminate|intros; discriminate].
Qed.

Theorem walk_oofG : forall j s parents rroot base, G base j -> Inv docs rid s -> Coh cwd rroot base ->
  (walk E docs cwd OP ctx_base live follow j s parents rroot base = OOF -> from_follow_G parents)
  /\ (forall s' j', walk E docs cwd OP ctx_base live follow j s parents rroot base = Done (s', j') -> Inv docs rid s').
Proof.
  intros j. remember (jsize j) as n eqn:En. revert j En.
  induction n as [n IH] using lt_wf_ind. intros j En s parents rroot base Hg Hs Hcoh. subst n.
  assert (Hid : forall x : json, (@Done (st * json) (s, x) = OOF -> from_follow_G parents) /\ (forall s' j', @Done (st * json) (s, x) = Done (s', j') -> Inv docs rid s'))
    by (intros x; split; [discriminate|intros s' j' H; inversion H; subst; exact Hs]).
  destruct j as [| | | |l|m]; try apply Hid.
  cbn [walk]. destruct (G_plain _ _ Hg) as [Hidm Hne].
  destruct (match assoc "$ref" m with Some (JStr r) => String.eqb r "" | _ => false end); [apply Hid|].
  unfold apply_id. rewrite Hidm. cbn [String.eqb].
  destruct (has_ref m) eqn:Hr.
  - destruct (negb (o_skip OP)).
    + apply esr_oofG; assumption.
    + destruct (nuri (get_str "$ref" m) base); cbn [pbind]; try (split; [discriminate|intros; discriminate]).
      destruct (render_rebased ctx_base s a); cbn [pbind]; try (split; [discriminate|intros; discriminate]). apply Hid.
  - destruct (fold_members_oofI (fun x s0 => walk E docs cwd OP ctx_base live follow x s0 parents rroot base) (Inv docs rid)
                (fun x => jsize x < jsize (JObj m) /\ G base x) (from_follow_G parents)
                (fun x s0 Hd Hs0 => IH (jsize x) (proj1 Hd) x eq_refl s0 parents rroot base (proj2 Hd) Hs0 Hcoh)
                m s []) as [Ho Hi].
    + intros k v x Hin Hc. split.
      * eapply Nat.le_lt_trans; [apply child_of_size; apply schema_child_child_of with (k := k); exact Hc|eapply jsize_value; exact Hin].
      * eapply G_child; [exact Hg|exact Hr|exact Hin|apply schema_child_child_of with (k := k); exact Hc].
    + exact Hs.
    + destruct (fold_members _ m s []) as [[s1 m1]|sf| |]; cbn [ebind fst snd]; split; try discriminate; try (intros; discriminate).
      * intros s' j' H. inversion H; subst. eapply Hi. reflexivity.
      * intros _. apply Ho. reflexivity.
Qed.
End WalkOofG.

(* running out of fuel d exhibits d pairwise distinct REFERENCES OF THE GRAPH, none of them on the stack at the start *)
Theorem exp_oofG : forall d s parents rroot base j, G base j -> Inv docs rid s -> Coh cwd rroot base ->
  (exp E docs cwd OP ctx_base live d s parents rroot base j = OOF ->
     exists ps, List.length ps = d /\ (NoDup parents -> NoDup (parents ++ ps)%list) /\ Forall holder_ref ps)
  /\ (forall s' j', exp E docs cwd OP ctx_base live d s parents rroot base j = Done (s', j') -> Inv docs rid s').
Proof.
  induction d as [|d IH]; intros s parents rroot base j Hg Hs Hcoh; cbn [exp].
  - split; [|intros; discriminate]. intros _. exists []. split; [reflexivity|]. split; [rewrite app_nil_r; auto|constructor].
  - destruct (walk_oofG (exp E docs cwd OP ctx_base live d)
               (fun s0 ps rr b t s' t' Hgt Hs0 Hc0 H => proj2 (IH s0 ps rr b t Hgt Hs0 Hc0) s' t' H) j s parents rroot base Hg Hs Hcoh) as [Ho Hi].
    split; [|exact Hi]. intros H. destruct (Ho H) as [s' [nref [rr' [b' [t [Hh [Hfresh [Hg' [Hs' [Hc' Hf]]]]]]]]]].
    destruct (proj1 (IH _ _ _ _ _ Hg' Hs' Hc') Hf) as [ps [Hlen [Hnd Hall]]].
    exists (nref :: ps). split; [cbn; rewrite Hlen; reflexivity|]. split; [|constructor; assumption].
    intros Hp. replace (parents ++ nref :: ps)%list with ((parents ++ [nref]) ++ ps)%list by (rewrite <- app_assoc; reflexivity).
    apply Hnd. apply NoDup_app_snoc; assumption.
Qed.

Lemma NoDup_app_r' {A} (l1 l2 : list A) : NoDup (l1 ++ l2)%list -> NoDup l2.
Proof. induction l1 as [|x r IH]; cbn; intros H; [exact H|]. inversion H; subst. apply IH. assumption. Qed.

(* hence: when the references of the graph lie in a finite list U, fuel |U| + 1 is never exhausted *)
Theorem exp_terminatesG : forall U d s parents rroot base j,
  (forall x, holder_ref x -> In x U) -> NoDup parents -> List.length U < d ->
  G base j -> Inv docs rid s -> Coh cwd rroot base ->
  exp E docs cwd OP ctx_base live d s parents rroot base j <> OOF.
Proof.
  intros U d s parents rroot base j HU Hnd Hlen Hg Hs Hcoh H.
  destruct (proj1 (exp_oofG d s parents rroot base j Hg Hs Hcoh) H) as [ps [Hl [Hn Hall]]].
  pose proof (NoDup_app_r' _ _ (Hn Hnd)) as Hps.
  assert (Hinc : incl ps U) by (intros x Hx; apply HU; rewrite Forall_forall in Hall; apply Hall; exact Hx).
  pose proof (NoDup_incl_length Hps Hinc) as Hle. lia.
Qed.
End TermG.

(* ---------- on a checked finite graph the references are the ones of the listed nodes ---------- *)
Section TermCheck.
Variable E : env.
Variable docs : list (string * json).
Variable cwd : string.
Variable OP : opts.
Variable ctx_base : string.
Variable rid : string.
Variable nodes : list (string * json).

Definition refs_of : list string :=
  flat_map (fun p => match snd p with
                     | JObj m => if has_ref m then match nuri (get_str "$ref" m) (fst p) with POk x => [x] | _ => [] end else []
                     | _ => [] end) nodes.
Lemma holder_ref_refs_of x : holder_ref (GN nodes) x -> In x refs_of.
Proof.
  intros [b [m [Hg [Hr Hn]]]]. unfold refs_of. apply in_flat_map. exists (b, JObj m). split; [exact Hg|].
  cbn [fst snd]. rewrite Hr, Hn. left. reflexivity.
Qed.

Theorem checked_exp_terminates (live : option (string * json)) :
  check_nodes E docs cwd OP ctx_base rid nodes = true ->
  (forall lu ld, live = Some (lu, ld) -> doc_at docs cwd lu = Some ld) ->
  o_cont OP = false ->
  forall d s parents rroot base j,
    NoDup parents -> List.length refs_of < d ->
    GN nodes base j -> Inv docs rid s -> Coh cwd rroot base ->
    exp E docs cwd OP ctx_base live d s parents rroot base j <> OOF.
Proof.
  intros Hck Hlive Hstrict d s parents rroot base j Hnd Hlen.
  exact (exp_terminatesG E docs cwd OP ctx_base live rid Hlive (GN nodes)
           (GN_child E docs cwd OP ctx_base rid nodes Hck) (GN_target E docs cwd OP ctx_base rid nodes Hck)
           (GN_plain E docs cwd OP ctx_base rid nodes Hck) (GN_same E docs cwd OP ctx_base rid nodes Hck) Hstrict
           refs_of d s parents rroot base j holder_ref_refs_of Hnd Hlen).
Qed.
End TermCheck.

(* ---------- the same for the `$ref` chains of parameters, responses and path items ---------- *)
Section DerefG.
Variable E : env.
Variable docs : list (string * json).
Variable cwd : string.
Variable OP : opts.
Variable live : option (string * json).
Variable rid : string.
Hypothesis live_served : forall lu ld, live = Some (lu, ld) -> doc_at docs cwd lu = Some ld.
Hypothesis strict : o_cont OP = false.
Variable GE : string -> string -> list (string * json) -> Prop.
Hypothesis GE_holder : forall kind b m, GE kind b m -> get_str "$ref" m <> "" -> remove_key "$ref" m = [].
Hypothesis GE_target : forall kind b m b1 tm, GE kind b m -> get_str "$ref" m <> "" ->
  sem_target_k E docs cwd kind (get_str "$ref" m) b = Some (b1, JObj tm) -> GE kind b1 tm /\ merge_over tm [] = tm.
Hypothesis GE_same : forall kind b m nref, GE kind b m -> get_str "$ref" m <> "" -> nuri (get_str "$ref" m) b = POk nref ->
  keeps_resolver (get_str "$ref" m) b nref -> nbase cwd (strip_frag nref) = nbase cwd (strip_frag b).

Definition eholder_ref (x : string) : Prop :=
  exists kind b m, GE kind b m /\ get_str "$ref" m <> "" /\ nuri (get_str "$ref" m) b = POk x.

Theorem deref_oofGE kind : forall fuel s parents rroot base m, GE kind base m -> Inv docs rid s -> Coh cwd rroot base ->
  deref E docs cwd OP live fuel s parents rroot base kind m = OOF ->
  exists ps, List.length ps = fuel /\ (NoDup parents -> NoDup (parents ++ ps)%list) /\ Forall eholder_ref ps.
Proof.
  induction fuel as [|f IH]; intros s parents rroot base m Hg Hs Hcoh H.
  - exists []. split; [reflexivity|]. split; [rewrite app_nil_r; auto|constructor].
  - cbn [deref] in H. destruct (String.eqb (get_str "$ref" m) "") eqn:Ec; [discriminate|]. apply String.eqb_neq in Ec.
    destruct (nuri (get_str "$ref" m) base) as [nref| |] eqn:En; cbn [pbind] in H; try discriminate.
    destruct (is_circular s nref parents) as [s1 circ] eqn:Eci. destruct circ; [discriminate|].
    pose proof (is_circular_false _ _ _ _ Eci) as Es. subst s1.
    pose proof (GE_same _ _ _ _ Hg Ec En) as Hsame.
    destruct (resolve E docs cwd live s rroot (get_str "$ref" m) base kind) as [[s2 t]|sf| |] eqn:Eres.
    + destruct (resolve_sem_k E docs cwd live rid live_served _ _ _ _ _ _ _ _ Hs Hcoh En (fun Hl => Hsame (or_introl Hl)) Eres) as [Ht Hs2].
      destruct t as [| | | | |tm]; try discriminate.
      apply ebind_oof in H. destruct H as [H|[rc [Htr H]]]; [exfalso; eapply transitive_not_oof; exact H|].
      destruct (transitive_next cwd _ _ _ _ _ _ Hcoh En Hsame Htr) as [Hnb Hcoh']. rewrite Hnb in H.
      rewrite (GE_holder _ _ _ Hg Ec) in H.
      destruct (GE_target _ _ _ _ _ Hg Ec Ht) as [Hg' Hmerge]. unfold merge_over in Hmerge. rewrite Hmerge in H.
      destruct (IH _ _ _ _ _ Hg' Hs2 Hcoh' H) as [ps [Hlen [Hnd Hall]]].
      exists (nref :: ps). split; [cbn; rewrite Hlen; reflexivity|]. split.
      * intros Hp. replace (parents ++ nref :: ps)%list with ((parents ++ [nref]) ++ ps)%list by (rewrite <- app_assoc; reflexivity).
        apply Hnd. apply NoDup_app_snoc; [exact Hp|eapply is_circular_fresh; exact Eci].
      * constructor; [exists kind, base, m; auto|exact Hall].
    + rewrite strict in H. discriminate.
    + exfalso. eapply resolve_not_oof. exact Eres.
    + discriminate.
Qed.

Theorem deref_terminatesGE kind : forall U fuel s parents rroot base m,
  (forall x, eholder_ref x -> In x U) -> NoDup parents -> List.length U < fuel ->
  GE kind base m -> Inv docs rid s -> Coh cwd rroot base ->
  deref E docs cwd OP live fuel s parents rroot base kind m <> OOF.
Proof.
  intros U fuel s parents rroot base m HU Hnd Hlen Hg Hs Hcoh H.
  destruct (deref_oofGE kind fuel s parents rroot base m Hg Hs Hcoh H) as [ps [Hl [Hn Hall]]].
  pose proof (NoDup_app_r' _ _ (Hn Hnd)) as Hps.
  assert (Hinc : incl ps U) by (intros x Hx; apply HU; rewrite Forall_forall in Hall; apply Hall; exact Hx).
  pose proof (NoDup_incl_length Hps Hinc) as Hle. lia.
Qed.
End DerefG.
