(* Meaning preservation for parameters and responses (C02, element level): the `$ref` chain of a parameter / response
   / path item is followed hop by hop IN THE DOCUMENT EACH HOP LANDS IN (the repaired defect F7 broke exactly this), and
   the schema below the element is expanded with the resolver and base of the document the chain ended in.

   [sem_target_k kind] is sem_target for any element kind, returning the base the next hop is read at: the base stays
   when the reference does not leave the document (the resolver is kept), otherwise it is the location of the target's
   document.  [chases_k] follows a chain to its end ("$ref replaces its holder" for holders that carry only `$ref`).
   [deref_sem]: when deref follows a chain to its end (it is not cut as circular), the holder it returns, the base and
   the resolver root are those of the end of the chain, resolver and base are coherent, the state invariant holds.
   [expand_por_sim]: the expanded parameter / response then has the members of the end of the chain, its schema
   bisimilar to the schema found there. *)
From Coq Require Import List String Ascii Bool Arith Lia.
From Spec Require Import Base.Json Base.JsonFacts Base.Url Base.UrlFacts Codec.Types Codec.Codec
  Expand.Expand Expand.ExpandFacts Expand.ExpandSim Expand.ExpandSimCheck Expand.ExpandCycle.
Import ListNotations.
Local Open Scope string_scope.

Section Elem.
Variable E : env.
Variable docs : list (string * json).
Variable cwd : string.
Variable OP : opts.
Variable ctx_base : string.
Variable live : option (string * json).
Variable rid : string.
Hypothesis live_served : forall lu ld, live = Some (lu, ld) -> doc_at docs cwd lu = Some ld.
Hypothesis strict : o_cont OP = false.

Definition fin_k (kind ref : string) (toks : list string) (d : json) : option json :=
  match (if String.eqb ref "" then Some d else ptr_get toks d) with
  | Some (JObj mm) => match norm E false (JObj mm) (TNamed kind) with ROk v => Some v | _ => None end
  | _ => None
  end.
Definition next_base (ref base nref : string) : string := if keepsb ref base nref then base else strip_frag nref.
Definition sem_target_k (kind ref base : string) : option (string * json) :=
  match new_ref (s2l ref), nuri ref base with
  | POk r, POk nref =>
      match doc_at docs cwd nref with
      | Some d => match fin_k kind ref (ptr_tokens (u_frag (r_url r))) d with
                  | Some v => Some (next_base ref base nref, v)
                  | None => None
                  end
      | None => None
      end
  | _, _ => None
  end.

Lemma finish_fin_k kind ref toks s' d s2 t : resolve_finish E ref kind toks s' d = Done (s2, t) ->
  fin_k kind ref toks d = Some t /\ s2 = set_dfail s' false.
Proof.
  unfold resolve_finish, fin_k. destruct (if String.eqb ref "" then Some d else ptr_get toks d) as [res|]; [|discriminate].
  destruct res; try discriminate. destruct (norm E false (JObj m) (TNamed kind)); try discriminate.
  intros H. inversion H; subst. split; reflexivity.
Qed.

(* resolveRef computes sem_target_k, for every kind (the proof of ExpandSim.resolve_sem with the kind as a parameter) *)
Lemma resolve_sem_k kind s rroot ref base nref s2 t :
  Inv docs rid s -> Coh cwd rroot base -> nuri ref base = POk nref ->
  (is_local ref = true -> nbase cwd (strip_frag nref) = nbase cwd (strip_frag base)) ->
  resolve E docs cwd live s rroot ref base kind = Done (s2, t) ->
  sem_target_k kind ref base = Some (next_base ref base nref, t) /\ Inv docs rid s2.
Proof.
  intros Hs Hcoh Hn Hloc. unfold resolve, sem_target_k, is_local in *. rewrite Hn.
  destruct (new_ref (s2l ref)) as [r| |]; cbn [pbind]; try discriminate.
  set (toks := ptr_tokens (u_frag (r_url r))). set (nb := next_base ref base nref).
  assert (Hby : forall s0, Inv docs rid s0 -> ebind (load docs cwd s0 nref) (fun sd => resolve_finish E ref kind toks (fst sd) (snd sd)) = Done (s2, t) ->
                match doc_at docs cwd nref with Some d => match fin_k kind ref toks d with Some v => Some (nb, v) | None => None end | None => None end
                = Some (nb, t) /\ Inv docs rid s2).
  { intros s0 Hs0 H. apply ebind_done in H. destruct H as [[s' d] [Hl Hf]]. cbn [fst snd] in Hf.
    destruct (load_sem docs cwd rid _ _ _ _ Hs0 Hl) as [Hd Hs']. apply finish_fin_k in Hf. destruct Hf as [Hf ->].
    rewrite Hd, Hf. split; [reflexivity|apply Inv_dfail; exact Hs']. }
  assert (Hat : forall s' d, Inv docs rid s' -> doc_at docs cwd base = Some d -> is_root r || has_fragment_only r = true ->
                resolve_finish E ref kind toks s' d = Done (s2, t) ->
                match doc_at docs cwd nref with Some d => match fin_k kind ref toks d with Some v => Some (nb, v) | None => None end | None => None end
                = Some (nb, t) /\ Inv docs rid s2).
  { intros s' d Hs' Hd Hl Hf. apply finish_fin_k in Hf. destruct Hf as [Hf ->].
    assert (Hdn : doc_at docs cwd nref = Some d) by (unfold doc_at in *; rewrite (Hloc Hl); exact Hd).
    rewrite Hdn, Hf. split; [reflexivity|apply Inv_dfail; exact Hs']. }
  assert (Hru : forall ru, rroot = Some ru -> doc_at docs cwd ru = doc_at docs cwd base) by (intros ru Hr; unfold doc_at; rewrite (Hcoh ru Hr); reflexivity).
  destruct (is_root r || has_fragment_only r) eqn:El; [|apply Hby; exact Hs].
  destruct rroot as [ru|].
  - assert (Hload : match load docs cwd s ru with Done (s', d) => resolve_finish E ref kind toks s' d
                    | _ => ebind (load docs cwd s nref) (fun sd => resolve_finish E ref kind toks (fst sd) (snd sd)) end = Done (s2, t) ->
                    match doc_at docs cwd nref with Some d => match fin_k kind ref toks d with Some v => Some (nb, v) | None => None end | None => None end
                    = Some (nb, t) /\ Inv docs rid s2).
    { destruct (load docs cwd s ru) as [[s' d]|sf| |] eqn:Elo; try (apply Hby; exact Hs).
      destruct (load_sem docs cwd rid _ _ _ _ Hs Elo) as [Hd Hs']. apply Hat; [exact Hs'| |reflexivity]. rewrite <- (Hru ru eq_refl). exact Hd. }
    destruct live as [[lu ld]|]; [|exact Hload].
    destruct (String.eqb ru lu) eqn:Eru; [|exact Hload].
    apply String.eqb_eq in Eru. subst lu. apply Hat; [exact Hs| |reflexivity].
    rewrite <- (Hru ru eq_refl). apply (live_served ru ld). reflexivity.
  - destruct (String.eqb base ""); [apply Hby; exact Hs|].
    destruct (load docs cwd s base) as [[s' d]|sf| |] eqn:Elo; try (apply Hby; exact Hs).
    destruct (load_sem docs cwd rid _ _ _ _ Hs Elo) as [Hd Hs']. apply Hat; [exact Hs'|exact Hd|reflexivity].
Qed.

(* the base transitiveResolver / updateBasePath continue with is next_base, and it is coherent with the resolver *)
Lemma transitive_next s rroot base ref nref rc :
  Coh cwd rroot base -> nuri ref base = POk nref ->
  (keeps_resolver ref base nref -> nbase cwd (strip_frag nref) = nbase cwd (strip_frag base)) ->
  transitive s rroot base ref = Done rc ->
  (if snd rc then strip_frag nref else base) = next_base ref base nref /\ Coh cwd (fst rc) (next_base ref base nref).
Proof.
  intros Hcoh Hn Hsame H. pose proof (transitive_coh cwd _ _ _ _ _ _ Hcoh Hn Hsame H) as Hc.
  unfold transitive, next_base, keepsb, is_local in *. rewrite Hn in H.
  destruct (new_ref (s2l ref)) as [r| |]; cbn [pbind] in H; try discriminate.
  destruct (is_root r || has_fragment_only r).
  { inversion H; subst. cbn [fst snd orb]. split; [reflexivity|exact Hcoh]. }
  destruct (new_ref (s2l base)) as [br| |]; cbn [pbind] in H; try discriminate.
  destruct (str_prefix (l2s (ref_string br)) nref).
  { inversion H; subst. cbn [fst snd orb]. split; [reflexivity|exact Hcoh]. }
  inversion H; subst. cbn [fst snd orb] in *. split; [reflexivity|exact Hc].
Qed.

(* ---------- chains ---------- *)
Definition merge_over (t m0 : list (string * json)) : list (string * json) :=
  fold_left (fun acc kv => set_member (fst kv) (snd kv) acc) t m0.

Inductive chases_k (kind : string) : string -> list (string * json) -> string -> list (string * json) -> Prop :=
| ck_node b m : get_str "$ref" m = "" -> chases_k kind b m b m
| ck_ref b m b1 tm b' m' : get_str "$ref" m <> "" -> sem_target_k kind (get_str "$ref" m) b = Some (b1, JObj tm) ->
    chases_k kind b1 tm b' m' -> chases_k kind b m b' m'.

(* the located elements of the graph: holders carry nothing but `$ref`, targets have distinct member names, a reference
   for which the resolver is kept stays in its document *)
Variable GE : string -> string -> list (string * json) -> Prop.
Hypothesis GE_holder : forall kind b m, GE kind b m -> get_str "$ref" m <> "" -> remove_key "$ref" m = [].
Hypothesis GE_target : forall kind b m b1 tm, GE kind b m -> get_str "$ref" m <> "" ->
  sem_target_k kind (get_str "$ref" m) b = Some (b1, JObj tm) -> GE kind b1 tm /\ merge_over tm [] = tm.
Hypothesis GE_same : forall kind b m nref, GE kind b m -> get_str "$ref" m <> "" -> nuri (get_str "$ref" m) b = POk nref ->
  keeps_resolver (get_str "$ref" m) b nref -> nbase cwd (strip_frag nref) = nbase cwd (strip_frag b).

Lemma is_circular_false' s nref parents s1 : is_circular s nref parents = (s1, false) -> s1 = s.
Proof.
  unfold is_circular. destruct (mem_str nref (memo s)); [discriminate|]. destruct (mem_str nref parents); [discriminate|].
  intros H. inversion H. reflexivity.
Qed.

(* deref follows the chain to its end, hop by hop in the document each hop lands in *)
Theorem deref_sem kind : forall fuel s parents rroot base m s' m1 rr1 b1,
  GE kind base m -> Inv docs rid s -> Coh cwd rroot base ->
  deref E docs cwd OP live fuel s parents rroot base kind m = Done (s', m1, rr1, b1) ->
  get_str "$ref" m1 = "" ->
  Inv docs rid s' /\ Coh cwd rr1 b1 /\ chases_k kind base m b1 m1 /\ GE kind b1 m1.
Proof.
  induction fuel as [|f IH]; intros s parents rroot base m s' m1 rr1 b1 Hg Hs Hcoh H Hend; cbn [deref] in H.
  - destruct (String.eqb (get_str "$ref" m) "") eqn:Ec; [|discriminate].
    inversion H; subst. apply String.eqb_eq in Ec. split; [exact Hs|split; [exact Hcoh|split; [apply ck_node; exact Ec|exact Hg]]].
  - destruct (String.eqb (get_str "$ref" m) "") eqn:Ec.
    { inversion H; subst. apply String.eqb_eq in Ec. split; [exact Hs|split; [exact Hcoh|split; [apply ck_node; exact Ec|exact Hg]]]. }
    apply String.eqb_neq in Ec.
    destruct (nuri (get_str "$ref" m) base) as [nref| |] eqn:En; cbn [pbind] in H; try discriminate.
    destruct (is_circular s nref parents) as [s1 circ] eqn:Eci.
    destruct circ.
    { inversion H; subst. exfalso. apply Ec. exact Hend. }
    pose proof (is_circular_false' _ _ _ _ Eci) as ->.
    pose proof (GE_same _ _ _ _ Hg Ec En) as Hsame.
    destruct (resolve E docs cwd live s rroot (get_str "$ref" m) base kind) as [[s2 t]|sf| |] eqn:Eres; try discriminate.
    + destruct (resolve_sem_k _ _ _ _ _ _ _ _ Hs Hcoh En (fun Hl => Hsame (or_introl Hl)) Eres) as [Ht Hs2].
      destruct t as [| | | | |tm]; try discriminate.
      apply ebind_done in H. destruct H as [rc [Htr H]].
      destruct (transitive_next _ _ _ _ _ _ Hcoh En Hsame Htr) as [Hnb Hcoh']. rewrite Hnb in H.
      rewrite (GE_holder _ _ _ Hg Ec) in H.
      destruct (GE_target _ _ _ _ _ Hg Ec Ht) as [Hg' Hmerge]. unfold merge_over in Hmerge. rewrite Hmerge in H.
      destruct (IH _ _ _ _ _ _ _ _ _ Hg' Hs2 Hcoh' H Hend) as [Hs' [Hc1 [Hch Hg1]]].
      split; [exact Hs'|split; [exact Hc1|split; [eapply ck_ref; eassumption|exact Hg1]]].
    + rewrite strict in H. discriminate.
Qed.

(* ---------- parameters and responses ---------- *)
(* the members of an expanded parameter / response: those of the end of its chain, the schema (if any) replaced by a
   bisimilar one read at the root location *)
Definition rel_por (n : nat) (bb : string) (m : list (string * json)) (bb' : string) (m' : list (string * json)) : Prop :=
  match assoc "schema" m with
  | Some (JObj sm) => exists v', m' = set_member "schema" v' m /\ sim E docs cwd n bb (JObj sm) bb' v'
  | _ => m' = m
  end.

Variable G : string -> json -> Prop.
Variable follow : st -> list string -> option string -> string -> json -> eres (st * json).
Hypothesis Hfollow : forall s ps rr b t s' t', G b t -> Inv docs rid s -> Coh cwd rr b -> follow s ps rr b t = Done (s', t') ->
  Inv docs rid s' /\ bisimilar E docs cwd b t ctx_base t'.
(* the schema of an element at the end of a chain belongs to the schema graph *)
Hypothesis GE_schema : forall kind b m sm, GE kind b m -> get_str "$ref" m = "" ->
  assoc "schema" (remove_key "$ref" m) = Some (JObj sm) -> G b (JObj sm).

Theorem expand_por_sim kind fuel s rroot base m s' j' s1 m1 rr1 b1 :
  GE kind base m -> Inv docs rid s -> Coh cwd rroot base ->
  deref E docs cwd OP live fuel s [] rroot base kind m = Done (s1, m1, rr1, b1) -> get_str "$ref" m1 = "" ->
  expand_por E docs cwd OP live follow fuel s rroot base kind (JObj m) = Done (s', j') ->
  Inv docs rid s' /\ chases_k kind base m b1 m1 /\
  exists mo, j' = JObj mo /\ forall n, rel_por n b1 (remove_key "$ref" m1) ctx_base mo.
Proof.
  intros Hg Hs Hcoh Hd Hend H. destruct (deref_sem _ _ _ _ _ _ _ _ _ _ _ Hg Hs Hcoh Hd Hend) as [Hs1 [Hc1 [Hch Hg1]]].
  unfold expand_por in H. rewrite Hd in H. cbn [ebind] in H.
  destruct (assoc "schema" (remove_key "$ref" m1)) as [[| | | | |sm]|] eqn:Esch;
    try (inversion H; subst; split; [exact Hs1|split; [exact Hch|]]; eexists; split; [reflexivity|]; intros n; unfold rel_por; rewrite Esch; reflexivity).
  apply ebind_done in H. destruct H as [[s3 v'] [Hf H]]. cbn [fst snd] in H. inversion H; subst.
  destruct (Hfollow _ _ _ _ _ _ _ (GE_schema _ _ _ _ Hg1 Hend Esch) Hs1 Hc1 Hf) as [Hs3 Hb].
  split; [exact Hs3|split; [exact Hch|]]. eexists. split; [reflexivity|]. intros n. unfold rel_por. rewrite Esch.
  exists v'. split; [reflexivity|apply Hb].
Qed.
End Elem.

(* ---------- the element hypotheses decided on finite lists of nodes ---------- *)
Section ElemCheck.
Variable E : env.
Variable docs : list (string * json).
Variable cwd : string.
Variable enodes : list (string * string * list (string * json)).   (* (kind, base, members) *)
Variable nodes : list (string * json).                              (* the schema graph, as in ExpandSimCheck.v *)

Definition GEN (kind b : string) (m : list (string * json)) : Prop := In (kind, b, m) enodes.
Definition emem (kind b : string) (m : list (string * json)) : bool :=
  existsb (fun p => String.eqb (fst (fst p)) kind && String.eqb (snd (fst p)) b && json_seqb (JObj (snd p)) (JObj m)) enodes.
Lemma emem_GEN kind b m : emem kind b m = true -> GEN kind b m.
Proof.
  unfold emem, GEN. intros H. apply existsb_exists in H. destruct H as [[[k0 b0] m0] [Hin H]]. cbn [fst snd] in H.
  apply andb_true_iff in H. destruct H as [H H3]. apply andb_true_iff in H. destruct H as [H1 H2].
  apply String.eqb_eq in H1, H2. apply json_seqb_eq in H3. inversion H3; subst. exact Hin.
Qed.

Definition check_enode (p : string * string * list (string * json)) : bool :=
  let kind := fst (fst p) in let b := snd (fst p) in let m := snd p in
  let ref := get_str "$ref" m in
  if String.eqb ref "" then
    match assoc "schema" (remove_key "$ref" m) with
    | Some (JObj sm) => gmem nodes b (JObj sm)
    | _ => true
    end
  else
    match remove_key "$ref" m with [] => true | _ => false end
    && match nuri ref b with
       | POk nref => if keepsb ref b nref then presult_eqb (nbase cwd (strip_frag nref)) (nbase cwd (strip_frag b)) else true
       | _ => true
       end
    && match sem_target_k E docs cwd kind ref b with
       | Some (b1, JObj tm) => emem kind b1 tm && json_seqb (JObj (merge_over tm [])) (JObj tm)
       | Some _ => true
       | None => true
       end.
Definition check_enodes : bool := forallb check_enode enodes.

Section Sound.
Hypothesis Hck : check_enodes = true.
Lemma enode_checked kind b m : GEN kind b m -> check_enode (kind, b, m) = true.
Proof. unfold check_enodes, GEN in *. intros Hin. rewrite forallb_forall in Hck. apply Hck. exact Hin. Qed.

Lemma GEN_holder kind b m : GEN kind b m -> get_str "$ref" m <> "" -> remove_key "$ref" m = [].
Proof.
  intros Hg Hr. pose proof (enode_checked _ _ _ Hg) as H. unfold check_enode in H. cbn [fst snd] in H.
  apply String.eqb_neq in Hr. rewrite Hr in H. apply andb_true_iff in H. destruct H as [H _]. apply andb_true_iff in H. destruct H as [H _].
  destruct (remove_key "$ref" m); [reflexivity|discriminate].
Qed.
Lemma GEN_target kind b m b1 tm : GEN kind b m -> get_str "$ref" m <> "" ->
  sem_target_k E docs cwd kind (get_str "$ref" m) b = Some (b1, JObj tm) -> GEN kind b1 tm /\ merge_over tm [] = tm.
Proof.
  intros Hg Hr Ht. pose proof (enode_checked _ _ _ Hg) as H. unfold check_enode in H. cbn [fst snd] in H.
  apply String.eqb_neq in Hr. rewrite Hr, Ht in H. apply andb_true_iff in H. destruct H as [_ H].
  apply andb_true_iff in H. destruct H as [H1 H2]. split; [apply emem_GEN; exact H1|].
  apply json_seqb_eq in H2. injection H2 as H2'. exact H2'.
Qed.
Lemma GEN_same kind b m nref : GEN kind b m -> get_str "$ref" m <> "" -> nuri (get_str "$ref" m) b = POk nref ->
  keeps_resolver (get_str "$ref" m) b nref -> nbase cwd (strip_frag nref) = nbase cwd (strip_frag b).
Proof.
  intros Hg Hr Hn Hk. pose proof (enode_checked _ _ _ Hg) as H. unfold check_enode in H. cbn [fst snd] in H.
  apply String.eqb_neq in Hr. rewrite Hr, Hn in H. apply andb_true_iff in H. destruct H as [H _]. apply andb_true_iff in H. destruct H as [_ H].
  rewrite (keeps_keepsb _ _ _ Hk) in H. apply presult_eqb_eq. exact H.
Qed.
Lemma GEN_schema kind b m sm : GEN kind b m -> get_str "$ref" m = "" ->
  assoc "schema" (remove_key "$ref" m) = Some (JObj sm) -> GN nodes b (JObj sm).
Proof.
  intros Hg Hr Hs. pose proof (enode_checked _ _ _ Hg) as H. unfold check_enode in H. cbn [fst snd] in H.
  rewrite Hr, Hs in H. cbn [String.eqb] in H. apply gmem_GN. exact H.
Qed.
End Sound.
End ElemCheck.

(* parameters and responses of a checked graph: the chain hypotheses and the schema-graph hypotheses both decided by
   computation, the schema below the element expanded by the real expander [exp] *)
Theorem checked_por_sim E docs cwd OP ctx_base rid nodes enodes (live : option (string * json)) :
  check_nodes E docs cwd OP ctx_base rid nodes = true -> check_enodes E docs cwd enodes nodes = true ->
  (forall lu ld, live = Some (lu, ld) -> doc_at docs cwd lu = Some ld) ->
  o_cont OP = false ->
  forall kind d fuel s rroot base m s' j' s1 m1 rr1 b1,
    GEN enodes kind base m -> Inv docs rid s -> Coh cwd rroot base ->
    deref E docs cwd OP live fuel s [] rroot base kind m = Done (s1, m1, rr1, b1) -> get_str "$ref" m1 = "" ->
    expand_por E docs cwd OP live (exp E docs cwd OP ctx_base live d) fuel s rroot base kind (JObj m) = Done (s', j') ->
    Inv docs rid s' /\ chases_k E docs cwd kind base m b1 m1 /\
    exists mo, j' = JObj mo /\ forall n, rel_por E docs cwd n b1 (remove_key "$ref" m1) ctx_base mo.
Proof.
  intros Hck Hcke Hlive Hstrict kind d.
  apply (expand_por_sim E docs cwd OP ctx_base live rid Hlive Hstrict (GEN enodes)
           (GEN_holder E docs cwd enodes nodes Hcke) (GEN_target E docs cwd enodes nodes Hcke) (GEN_same E docs cwd enodes nodes Hcke)
           (GN nodes) (exp E docs cwd OP ctx_base live d)).
  - intros s ps rr b t s' t' Hg Hs Hc H. exact (checked_graph_sim E docs cwd OP ctx_base rid nodes live Hck Hlive Hstrict d s ps rr b t s' t' Hg Hs Hc H).
  - apply (GEN_schema E docs cwd enodes nodes Hcke).
Qed.
