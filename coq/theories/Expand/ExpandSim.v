(* Meaning preservation of schema expansion (C02): the output of the tree walk, read at the root location, is bisimilar
   to its input read at the location of the document that contains it.

   Meaning.  A located schema is a pair (base, j): the JSON value j found in the document at URL base.  [sem_target]
   says what a `$ref` text designates there: the text is resolved against the base of the CONTAINING document
   (normalizeURI), the document at the resulting URL is fetched from the loader's store, the fragment is evaluated as a
   JSON pointer, and the value is read as a Schema (typed decoding).  [chases] follows `$ref`s until a proper schema
   object appears ("$ref replaces its holder"; a dangling or non-productive chain denotes nothing).  [sim n] compares
   two located schemas level by level down to depth n: both sides chase to objects whose members are pairwise related,
   sub-schema positions (the keywords child_step knows) by [sim (n-1)], everything else by equality.  Two located
   schemas are bisimilar when [sim n] holds for every n.

   Theorem.  [walk_sim] / [exp_sim]: whenever the walk succeeds on (base, j), its output j' satisfies
   sim n base j ctx_base j' for every n, for every fuel, state, parent stack and option setting with ContinueOnError
   off (a swallowed error leaves a holder behind that means something else) — under the well-formedness conditions of
   the reference graph collected in the Section hypotheses below (they carve out exactly the areas of the open
   findings F9 (string-prefix sibling documents) and F10b (schema ids), plus three facts of URL algebra that are
   validated by the C11-C13 checks rather than proved here).  No classical axiom is used. *)
From Coq Require Import List String Ascii Bool Arith Lia.
From Spec Require Import Base.Json Base.JsonFacts Base.Url Base.UrlFacts Codec.Types Codec.Codec Expand.Expand Expand.ExpandFacts.
Import ListNotations.
Local Open Scope string_scope.

(* ---------- relations between the members of two schema objects, following child_step ---------- *)
Section Rel.
Variable R : json -> json -> Prop.
Definition rel_val (x x' : json) : Prop := match x with JObj _ => R x x' | _ => x' = x end.
Definition rel_entry (a a' : string * json) : Prop := fst a = fst a' /\ rel_val (snd a) (snd a').
Definition rel_child (k : string) (v v' : json) : Prop :=
  if mem_str k ["definitions"; "properties"; "patternProperties"; "dependencies"] then
    match v with JObj vm => exists vm', v' = JObj vm' /\ Forall2 rel_entry vm vm' | _ => v' = v end
  else if mem_str k ["allOf"; "anyOf"; "oneOf"] then
    match v with JArr l => exists l', v' = JArr l' /\ Forall2 rel_val l l' | _ => v' = v end
  else if String.eqb k "items" then
    match v with JArr l => exists l', v' = JArr l' /\ Forall2 rel_val l l' | JObj _ => R v v' | _ => v' = v end
  else if mem_str k ["not"; "additionalProperties"; "additionalItems"] then
    match v with JObj _ => R v v' | _ => v' = v end
  else v' = v.
Definition rel_member (a a' : string * json) : Prop := fst a = fst a' /\ rel_child (fst a) (snd a) (snd a').
Definition rel_members (m m' : list (string * json)) : Prop := Forall2 rel_member m m'.
End Rel.

Lemma Forall2_mono {A B} (P Q : A -> B -> Prop) l l' : (forall a b, P a b -> Q a b) -> Forall2 P l l' -> Forall2 Q l l'.
Proof. intros H F. induction F; constructor; auto. Qed.
Lemma Forall2_refl {A} (P : A -> A -> Prop) l : (forall a, P a a) -> Forall2 P l l.
Proof. intros H. induction l; constructor; auto. Qed.

Section RelFacts.
Variables R R' : json -> json -> Prop.
Hypothesis HRR : forall x x', R x x' -> R' x x'.
Lemma rel_val_mono x x' : rel_val R x x' -> rel_val R' x x'.
Proof. unfold rel_val. destruct x; auto. Qed.
Lemma rel_child_mono k v v' : rel_child R k v v' -> rel_child R' k v v'.
Proof.
  unfold rel_child.
  destruct (mem_str k ["definitions"; "properties"; "patternProperties"; "dependencies"]).
  { destruct v; auto. intros [vm' [-> F]]. exists vm'. split; [reflexivity|].
    eapply Forall2_mono; [|exact F]. intros a b [H1 H2]. split; [exact H1|apply rel_val_mono; exact H2]. }
  destruct (mem_str k ["allOf"; "anyOf"; "oneOf"]).
  { destruct v; auto. intros [l' [-> F]]. exists l'. split; [reflexivity|]. eapply Forall2_mono; [|exact F]. apply rel_val_mono. }
  destruct (String.eqb k "items").
  { destruct v; auto. intros [l' [-> F]]. exists l'. split; [reflexivity|]. eapply Forall2_mono; [|exact F]. apply rel_val_mono. }
  destruct (mem_str k ["not"; "additionalProperties"; "additionalItems"]); [destruct v; auto|auto].
Qed.
Lemma rel_members_mono m m' : rel_members R m m' -> rel_members R' m m'.
Proof. unfold rel_members. apply Forall2_mono. intros a b [H1 H2]. split; [exact H1|apply rel_child_mono; exact H2]. Qed.
End RelFacts.

Section RelRefl.
Variable R : json -> json -> Prop.
Hypothesis HR : forall x, R x x.
Lemma rel_val_refl x : rel_val R x x.
Proof. unfold rel_val. destruct x; auto. Qed.
Lemma rel_child_refl k v : rel_child R k v v.
Proof.
  unfold rel_child.
  destruct (mem_str k ["definitions"; "properties"; "patternProperties"; "dependencies"]).
  { destruct v; auto. exists m. split; [reflexivity|]. apply Forall2_refl. intros a. split; [reflexivity|apply rel_val_refl]. }
  destruct (mem_str k ["allOf"; "anyOf"; "oneOf"]).
  { destruct v; auto. exists l. split; [reflexivity|]. apply Forall2_refl. apply rel_val_refl. }
  destruct (String.eqb k "items").
  { destruct v; auto. exists l. split; [reflexivity|]. apply Forall2_refl. apply rel_val_refl. }
  destruct (mem_str k ["not"; "additionalProperties"; "additionalItems"]); [destruct v; auto|auto].
Qed.
Lemma rel_members_refl m : rel_members R m m.
Proof. apply Forall2_refl. intros a. split; [reflexivity|apply rel_child_refl]. Qed.
End RelRefl.

(* a member named "$ref" is at no sub-schema position: related objects agree on it *)
Lemma rel_members_ref R m m' : rel_members R m m' -> assoc "$ref" m' = assoc "$ref" m.
Proof.
  intros F. induction F as [|[k v] [k' v'] m m' [Hk Hc] F IH]; [reflexivity|].
  cbn in Hk. subst k'. cbn [assoc]. destruct (String.eqb "$ref" k) eqn:Ek; [|exact IH].
  apply String.eqb_eq in Ek. subst k. cbn in Hc. rewrite Hc. reflexivity.
Qed.
Lemma rel_members_has_ref R m m' : rel_members R m m' -> has_ref m' = has_ref m.
Proof. intros F. unfold has_ref. rewrite (rel_members_ref _ _ _ F). reflexivity. Qed.

(* ---------- what a successful fold relates ---------- *)
Section FoldRel.
Variable W : json -> st -> eres (st * json).
Variable I : st -> Prop.
Variable R : json -> json -> Prop.
Variable Dom : json -> Prop.
Hypothesis HW : forall x s s' x', Dom x -> I s -> W x s = Done (s', x') -> I s' /\ R x x'.

Lemma fold_elems_rel : forall l s out s' l', (forall x, In x l -> Dom x) -> I s ->
  fold_elems W l s out = Done (s', l') -> I s' /\ exists l2, l' = (rev out ++ l2)%list /\ Forall2 (rel_val R) l l2.
Proof.
  induction l as [|x r IH]; intros s out s' l' Hd Hs H; cbn [fold_elems] in H.
  - inversion H; subst. split; [exact Hs|]. exists []. rewrite app_nil_r. split; [reflexivity|constructor].
  - assert (Hr : forall y, In y r -> Dom y) by (intros y Hy; apply Hd; right; exact Hy).
    destruct x as [| | | |lx|mx];
      try (destruct (IH _ _ _ _ Hr Hs H) as [Hs' [l2 [-> F]]]; split; [exact Hs'|];
           eexists (_ :: l2); cbn [rev]; rewrite <- app_assoc; split; [reflexivity|constructor; [reflexivity|exact F]]).
    destruct (W (JObj mx) s) as [[s1 x']|sf| |] eqn:Ew; try discriminate.
    destruct (HW _ _ _ _ (Hd _ (or_introl eq_refl)) Hs Ew) as [Hs1 HR].
    destruct (IH _ _ _ _ Hr Hs1 H) as [Hs' [l2 [-> F]]]. split; [exact Hs'|].
    exists (x' :: l2). cbn [rev]. rewrite <- app_assoc. split; [reflexivity|constructor; [exact HR|exact F]].
Qed.

Lemma fold_values_rel : forall l s out s' l', (forall k x, In (k, x) l -> Dom x) -> I s ->
  fold_values W l s out = Done (s', l') -> I s' /\ exists l2, l' = (rev out ++ l2)%list /\ Forall2 (rel_entry R) l l2.
Proof.
  induction l as [|[k x] r IH]; intros s out s' l' Hd Hs H; cbn [fold_values] in H.
  - inversion H; subst. split; [exact Hs|]. exists []. rewrite app_nil_r. split; [reflexivity|constructor].
  - assert (Hr : forall k' y, In (k', y) r -> Dom y) by (intros k' y Hy; eapply Hd; right; exact Hy).
    destruct x as [| | | |lx|mx];
      try (destruct (IH _ _ _ _ Hr Hs H) as [Hs' [l2 [-> F]]]; split; [exact Hs'|];
           eexists (_ :: l2); cbn [rev]; rewrite <- app_assoc; split; [reflexivity|constructor; [split; reflexivity|exact F]]).
    destruct (W (JObj mx) s) as [[s1 x']|sf| |] eqn:Ew; try discriminate.
    destruct (HW _ _ _ _ (Hd k _ (or_introl eq_refl)) Hs Ew) as [Hs1 HR].
    destruct (IH _ _ _ _ Hr Hs1 H) as [Hs' [l2 [-> F]]]. split; [exact Hs'|].
    exists ((k, x') :: l2). cbn [rev]. rewrite <- app_assoc. split; [reflexivity|constructor; [split; [reflexivity|exact HR]|exact F]].
Qed.

Lemma child_step_rel k v s s' v' : (forall x, child_of x v -> Dom x) -> I s ->
  child_step W k v s = Done (s', v') -> I s' /\ rel_child R k v v'.
Proof.
  intros Hd Hs. unfold child_step, rel_child.
  destruct (mem_str k ["definitions"; "properties"; "patternProperties"; "dependencies"]).
  { destruct v as [| | | |l|vm]; try (intros H; inversion H; subst; split; [exact Hs|reflexivity]).
    destruct (fold_values W vm s []) as [[s1 vm']|sf| |] eqn:Ef; try discriminate. intros H. inversion H; subst.
    destruct (fold_values_rel _ _ _ _ _ (fun k' x Hin => Hd x (co_value _ _ _ Hin)) Hs Ef) as [Hs' [l2 [-> F]]].
    split; [exact Hs'|]. exists l2. split; [reflexivity|exact F]. }
  destruct (mem_str k ["allOf"; "anyOf"; "oneOf"]).
  { destruct v as [| | | |l|vm]; try (intros H; inversion H; subst; split; [exact Hs|reflexivity]).
    destruct (fold_elems W l s []) as [[s1 l']|sf| |] eqn:Ef; try discriminate. intros H. inversion H; subst.
    destruct (fold_elems_rel _ _ _ _ _ (fun x Hin => Hd x (co_elem _ _ Hin)) Hs Ef) as [Hs' [l2 [-> F]]].
    split; [exact Hs'|]. exists l2. split; [reflexivity|exact F]. }
  destruct (String.eqb k "items").
  { destruct v as [| | | |l|vm]; try (intros H; inversion H; subst; split; [exact Hs|reflexivity]).
    - destruct (fold_elems W l s []) as [[s1 l']|sf| |] eqn:Ef; try discriminate. intros H. inversion H; subst.
      destruct (fold_elems_rel _ _ _ _ _ (fun x Hin => Hd x (co_elem _ _ Hin)) Hs Ef) as [Hs' [l2 [-> F]]].
      split; [exact Hs'|]. exists l2. split; [reflexivity|exact F].
    - intros H. exact (HW _ _ _ _ (Hd _ (co_self _)) Hs H). }
  destruct (mem_str k ["not"; "additionalProperties"; "additionalItems"]).
  { destruct v as [| | | |l|vm]; try (intros H; inversion H; subst; split; [exact Hs|reflexivity]).
    intros H. exact (HW _ _ _ _ (Hd _ (co_self _)) Hs H). }
  intros H; inversion H; subst; split; [exact Hs|reflexivity].
Qed.

Lemma fold_members_rel : forall m s out s' m', (forall k v x, In (k, v) m -> child_of x v -> Dom x) -> I s ->
  fold_members W m s out = Done (s', m') -> I s' /\ exists m2, m' = (rev out ++ m2)%list /\ rel_members R m m2.
Proof.
  induction m as [|[k v] r IH]; intros s out s' m' Hd Hs H; cbn [fold_members] in H.
  - inversion H; subst. split; [exact Hs|]. exists []. rewrite app_nil_r. split; [reflexivity|constructor].
  - destruct (child_step W k v s) as [[s1 v']|sf| |] eqn:Ec; try discriminate.
    destruct (child_step_rel _ _ _ _ _ (fun x Hx => Hd k v x (or_introl eq_refl) Hx) Hs Ec) as [Hs1 Hc].
    destruct (IH _ _ _ _ (fun k' v0 x Hin Hx => Hd k' v0 x (or_intror Hin) Hx) Hs1 H) as [Hs' [m2 [-> F]]].
    split; [exact Hs'|]. exists ((k, v') :: m2). cbn [rev]. rewrite <- app_assoc.
    split; [reflexivity|constructor; [split; [reflexivity|exact Hc]|exact F]].
Qed.
End FoldRel.

(* ---------- meaning of located schemas ---------- *)
Section Sim.
Variable E : env.
Variable docs : list (string * json).
Variable cwd : string.
Variable OP : opts.
Variable ctx_base : string.
Variable live : option (string * json).

(* the document a URL designates: what the loader serves at its canonical location *)
Definition doc_at (u : string) : option json :=
  match nbase cwd (strip_frag u) with POk n => assoc n docs | _ => None end.

(* pointer evaluation and typed reading of the designated value (the pure part of resolveRef) *)
Definition fin (ref : string) (toks : list string) (d : json) : option json :=
  match (if String.eqb ref "" then Some d else ptr_get toks d) with
  | Some (JObj mm) => match norm E false (JObj mm) (TNamed "Schema") with ROk v => Some v | _ => None end
  | _ => None
  end.

(* what the reference text [ref], found in the document at [base], designates: the location of the document that
   contains the target, and the target *)
Definition sem_target (ref base : string) : option (string * json) :=
  match new_ref (s2l ref), nuri ref base with
  | POk r, POk nref =>
      match doc_at nref with
      | Some d => match fin ref (ptr_tokens (u_frag (r_url r))) d with
                  | Some v => Some (strip_frag nref, v)
                  | None => None
                  end
      | None => None
      end
  | _, _ => None
  end.

Inductive chases : string -> json -> string -> list (string * json) -> Prop :=
| ch_node b m : has_ref m = false -> chases b (JObj m) b m
| ch_ref b m b1 t b' m' : has_ref m = true -> sem_target (get_str "$ref" m) b = Some (b1, t) ->
    chases b1 t b' m' -> chases b (JObj m) b' m'.

Fixpoint sim (n : nat) (b : string) (j : json) (b' : string) (j' : json) {struct n} : Prop :=
  match n with
  | 0 => True
  | S n => (forall bb m, chases b j bb m -> exists bb' m', chases b' j' bb' m' /\ rel_members (fun x x' => sim n bb x bb' x') m m')
        /\ (forall bb' m', chases b' j' bb' m' -> exists bb m, chases b j bb m /\ rel_members (fun x x' => sim n bb x bb' x') m m')
  end.
Definition bisimilar (b : string) (j : json) (b' : string) (j' : json) : Prop := forall n, sim n b j b' j'.

Lemma chases_fun b j b1 m1 : chases b j b1 m1 -> forall b2 m2, chases b j b2 m2 -> b1 = b2 /\ m1 = m2.
Proof.
  intros H. induction H as [b m Hn|b m b1 t b' m' Hr Ht Hc IH]; intros b2 m2 H2; inversion H2; subst; try congruence.
  - split; reflexivity.
  - match goal with Ha : sem_target _ _ = Some (?x, ?y) |- _ => rewrite Ht in Ha; inversion Ha; subst end. apply IH. assumption.
Qed.

Lemma sim_refl n : forall b j, sim n b j b j.
Proof.
  induction n as [|n IH]; intros b j; cbn [sim]; [exact I|].
  split; intros bb m H; exists bb, m; (split; [exact H|]); apply rel_members_refl; intros x; apply IH.
Qed.

(* two located values that chase to the same objects are similar *)
Lemma sim_same_chase n b j b' j' : (forall bb m, chases b j bb m <-> chases b' j' bb m) -> sim n b j b' j'.
Proof.
  intros H. destruct n as [|n]; cbn [sim]; [exact I|].
  split; intros bb m Hc; exists bb, m; (split; [apply H; exact Hc|]); apply rel_members_refl; intros x; apply sim_refl.
Qed.

(* "$ref replaces its holder", on the input side *)
Lemma sim_ref_l n b m b1 t b' j' : has_ref m = true -> sem_target (get_str "$ref" m) b = Some (b1, t) ->
  sim n b1 t b' j' -> sim n b (JObj m) b' j'.
Proof.
  intros Hr Ht H. destruct n as [|n]; cbn [sim] in *; [exact I|]. destruct H as [H1 H2]. split.
  - intros bb mm Hc. inversion Hc; subst; [congruence|].
    match goal with Ha : sem_target _ _ = Some (?x, ?y) |- _ => rewrite Ht in Ha; inversion Ha; subst end.
    apply H1. assumption.
  - intros bb' m' Hc. destruct (H2 _ _ Hc) as [bb [mm [Hc1 HR]]]. exists bb, mm. split; [|exact HR].
    eapply ch_ref; eassumption.
Qed.

(* two holders whose references designate the same target *)
Lemma sim_refs_same_target n b m b' m' : has_ref m = true -> has_ref m' = true ->
  sem_target (get_str "$ref" m') b' = sem_target (get_str "$ref" m) b -> sim n b (JObj m) b' (JObj m').
Proof.
  intros Hr Hr' Ht. apply sim_same_chase. intros bb mm. split; intros Hc; inversion Hc; subst; try congruence.
  - eapply ch_ref; [exact Hr'|rewrite Ht; eassumption|assumption].
  - eapply ch_ref; [exact Hr|rewrite <- Ht; eassumption|assumption].
Qed.

(* an object without a reference and its member-wise related image *)
Lemma sim_node n b m b' m' : has_ref m = false -> (forall k, rel_members (fun x x' => sim k b x b' x') m m') ->
  sim n b (JObj m) b' (JObj m').
Proof.
  intros Hn HR. assert (Hn' : has_ref m' = false) by (rewrite (rel_members_has_ref _ _ _ (HR 0)); exact Hn).
  destruct n as [|n]; cbn [sim]; [exact I|]. split; intros bb mm Hc; inversion Hc; subst; try congruence.
  - exists b', m'. split; [apply ch_node; exact Hn'|apply HR].
  - exists b, m. split; [apply ch_node; exact Hn|apply HR].
Qed.

(* set_member on an object that has the member *)
Lemma assoc_set_member_eq k v (m : list (string * json)) : assoc k (set_member k v m) = Some v.
Proof.
  induction m as [|[k' v'] r IH]; cbn [set_member assoc]; [rewrite String.eqb_refl; reflexivity|].
  destruct (String.eqb k k') eqn:Ek; cbn [assoc]; [rewrite String.eqb_refl; reflexivity|rewrite Ek; exact IH].
Qed.
Lemma has_ref_set txt m : has_ref (set_member "$ref" (JStr txt) m) = true.
Proof. unfold has_ref. rewrite assoc_set_member_eq. reflexivity. Qed.
Lemma get_ref_set txt m : get_str "$ref" (set_member "$ref" (JStr txt) m) = txt.
Proof. unfold get_str. rewrite assoc_set_member_eq. reflexivity. Qed.

(* ---------- the state invariant and the coherence of resolver and base ---------- *)
Variable rid : string.
Definition Inv (s : st) : Prop :=
  (forall u d, assoc u (cache s) = Some d -> assoc u docs = Some d) /\ rootid s = rid.
(* a resolver that holds a root document holds the document the base designates *)
Definition Coh (rroot : option string) (base : string) : Prop :=
  forall ru, rroot = Some ru -> nbase cwd (strip_frag ru) = nbase cwd (strip_frag base).

Hypothesis live_served : forall lu ld, live = Some (lu, ld) -> doc_at lu = Some ld.

Lemma load_sem s u s' d : Inv s -> load docs cwd s u = Done (s', d) -> doc_at u = Some d /\ Inv s'.
Proof.
  intros [Hc Hr]. unfold load, doc_at. destruct (nbase cwd (strip_frag u)) as [n| |]; cbn [pbind]; try discriminate.
  destruct (assoc n (cache s)) as [d0|] eqn:Ec.
  - intros H. inversion H; subst. split; [apply Hc; exact Ec|split; assumption].
  - destruct (assoc n docs) as [d0|] eqn:Ed; [|discriminate]. intros H. inversion H; subst. split; [reflexivity|].
    split; [|exact Hr]. cbn [cache]. intros u0 d1. cbn [assoc]. destruct (String.eqb u0 n) eqn:Eu.
    + apply String.eqb_eq in Eu. subst u0. intros H1. inversion H1; subst. exact Ed.
    + apply Hc.
Qed.

Lemma finish_fin ref toks s' d s2 t : resolve_finish E ref "Schema" toks s' d = Done (s2, t) ->
  fin ref toks d = Some t /\ s2 = set_dfail s' false.
Proof.
  unfold resolve_finish, fin. destruct (if String.eqb ref "" then Some d else ptr_get toks d) as [res|]; [|discriminate].
  destruct res; try discriminate. destruct (norm E false (JObj m) (TNamed "Schema")); try discriminate.
  intros H. inversion H; subst. split; reflexivity.
Qed.
Lemma Inv_dfail s b : Inv s -> Inv (set_dfail s b).
Proof. intros [H1 H2]. split; assumption. Qed.

Definition is_local (ref : string) : bool :=
  match new_ref (s2l ref) with POk r => is_root r || has_fragment_only r | _ => false end.

(* resolveRef computes sem_target: a fragment-only reference is read in the document the resolver holds, which — by
   coherence — is the document at the base, which — [Hloc] — is the document normalizeURI designates *)
Lemma resolve_sem s rroot ref base nref s2 t :
  Inv s -> Coh rroot base -> nuri ref base = POk nref ->
  (is_local ref = true -> nbase cwd (strip_frag nref) = nbase cwd (strip_frag base)) ->
  resolve E docs cwd live s rroot ref base "Schema" = Done (s2, t) ->
  sem_target ref base = Some (strip_frag nref, t) /\ Inv s2.
Proof.
  intros Hs Hcoh Hn Hloc. unfold resolve, sem_target, is_local in *. rewrite Hn.
  destruct (new_ref (s2l ref)) as [r| |]; cbn [pbind]; try discriminate.
  set (toks := ptr_tokens (u_frag (r_url r))).
  assert (Hby : forall s0, Inv s0 -> ebind (load docs cwd s0 nref) (fun sd => resolve_finish E ref "Schema" toks (fst sd) (snd sd)) = Done (s2, t) ->
                match doc_at nref with Some d => match fin ref toks d with Some v => Some (strip_frag nref, v) | None => None end | None => None end
                = Some (strip_frag nref, t) /\ Inv s2).
  { intros s0 Hs0 H. apply ebind_done in H. destruct H as [[s' d] [Hl Hf]]. cbn [fst snd] in Hf.
    destruct (load_sem _ _ _ _ Hs0 Hl) as [Hd Hs']. apply finish_fin in Hf. destruct Hf as [Hf ->].
    rewrite Hd, Hf. split; [reflexivity|apply Inv_dfail; exact Hs']. }
  assert (Hat : forall s' d, Inv s' -> doc_at base = Some d -> is_root r || has_fragment_only r = true ->
                resolve_finish E ref "Schema" toks s' d = Done (s2, t) ->
                match doc_at nref with Some d => match fin ref toks d with Some v => Some (strip_frag nref, v) | None => None end | None => None end
                = Some (strip_frag nref, t) /\ Inv s2).
  { intros s' d Hs' Hd Hl Hf. apply finish_fin in Hf. destruct Hf as [Hf ->].
    assert (Hdn : doc_at nref = Some d) by (unfold doc_at in *; rewrite (Hloc Hl); exact Hd).
    rewrite Hdn, Hf. split; [reflexivity|apply Inv_dfail; exact Hs']. }
  assert (Hru : forall ru, rroot = Some ru -> doc_at ru = doc_at base) by (intros ru Hr; unfold doc_at; rewrite (Hcoh ru Hr); reflexivity).
  destruct (is_root r || has_fragment_only r) eqn:El; [|apply Hby; exact Hs].
  destruct rroot as [ru|].
  - assert (Hload : match load docs cwd s ru with Done (s', d) => resolve_finish E ref "Schema" toks s' d
                    | _ => ebind (load docs cwd s nref) (fun sd => resolve_finish E ref "Schema" toks (fst sd) (snd sd)) end = Done (s2, t) ->
                    match doc_at nref with Some d => match fin ref toks d with Some v => Some (strip_frag nref, v) | None => None end | None => None end
                    = Some (strip_frag nref, t) /\ Inv s2).
    { destruct (load docs cwd s ru) as [[s' d]|sf| |] eqn:Elo; try (apply Hby; exact Hs).
      destruct (load_sem _ _ _ _ Hs Elo) as [Hd Hs']. apply Hat; [exact Hs'| |reflexivity]. rewrite <- (Hru ru eq_refl). exact Hd. }
    destruct live as [[lu ld]|]; [|exact Hload].
    destruct (String.eqb ru lu) eqn:Eru; [|exact Hload].
    apply String.eqb_eq in Eru. subst lu. apply Hat; [exact Hs| |reflexivity].
    rewrite <- (Hru ru eq_refl). apply (live_served ru ld). reflexivity.
  - destruct (String.eqb base ""); [apply Hby; exact Hs|].
    destruct (load docs cwd s base) as [[s' d]|sf| |] eqn:Elo; try (apply Hby; exact Hs).
    destruct (load_sem _ _ _ _ Hs Elo) as [Hd Hs']. apply Hat; [exact Hs'|exact Hd|reflexivity].
Qed.

(* ---------- transitiveResolver keeps resolver and base coherent ---------- *)
Lemma cut_fst_clean c : forall s, mem_char c (fst (cut c s)) = false.
Proof.
  induction s as [|x r IH]; [reflexivity|]. cbn [cut]. destruct (ceq x c) eqn:Ex; [reflexivity|].
  destruct (cut c r) as [a b]. cbn [fst] in *. unfold mem_char in *. cbn [existsb]. rewrite IH.
  unfold ceq in *. rewrite Ascii.eqb_sym, Ex. reflexivity.
Qed.
Lemma strip_frag_idem u : strip_frag (strip_frag u) = strip_frag u.
Proof.
  unfold strip_frag, s2l, l2s. rewrite list_ascii_of_string_of_list_ascii.
  rewrite (cut_none _ _ (cut_fst_clean "#"%char (list_ascii_of_string u))). reflexivity.
Qed.

(* the cases in which transitiveResolver keeps the current resolver: a fragment-only reference, or a target URL that has
   the base as a string prefix *)
Definition keeps_resolver (ref base nref : string) : Prop :=
  is_local ref = true \/ exists br, new_ref (s2l base) = POk br /\ str_prefix (l2s (ref_string br)) nref = true.

Lemma transitive_coh s rroot base ref nref rc :
  Coh rroot base -> nuri ref base = POk nref ->
  (keeps_resolver ref base nref -> nbase cwd (strip_frag nref) = nbase cwd (strip_frag base)) ->
  transitive s rroot base ref = Done rc -> Coh (fst rc) (strip_frag nref).
Proof.
  intros Hcoh Hn Hsame. unfold transitive, keeps_resolver, is_local in *. rewrite Hn.
  destruct (new_ref (s2l ref)) as [r| |]; cbn [pbind]; try discriminate.
  destruct (is_root r || has_fragment_only r).
  { intros H. inversion H; subst. cbn [fst]. intros ru Hr. rewrite strip_frag_idem, (Hcoh ru Hr). symmetry. apply Hsame. left. reflexivity. }
  destruct (new_ref (s2l base)) as [br| |]; cbn [pbind]; try discriminate.
  destruct (str_prefix (l2s (ref_string br)) nref) eqn:Ep.
  { intros H. inversion H; subst. cbn [fst]. intros ru Hr. rewrite strip_frag_idem, (Hcoh ru Hr). symmetry. apply Hsame. right. exists br. split; [reflexivity|exact Ep]. }
  intros H. inversion H; subst. cbn [fst]. intros ru Hr.
  destruct (assoc (strip_frag nref) (cache s)); inversion Hr; subst. reflexivity.
Qed.

(* ---------- the reference graph: an invariant set of located schemas ---------- *)
Variable G : string -> json -> Prop.
(* closed under sub-schema positions and under reference targets *)
Hypothesis G_child : forall b m k v x, G b (JObj m) -> has_ref m = false -> In (k, v) m -> child_of x v -> G b x.
Hypothesis G_target : forall b m b' t, G b (JObj m) -> has_ref m = true -> sem_target (get_str "$ref" m) b = Some (b', t) -> G b' t.
(* no schema id, no empty reference (the areas of F10/F10b and of the `{"$ref": ""}` idiom) *)
Hypothesis G_plain : forall b m, G b (JObj m) -> get_str "id" m = "" /\ assoc "$ref" m <> Some (JStr "").
(* URL algebra of the references of the graph: a reference for which the resolver is kept stays in the document of its
   holder (false exactly for the string-prefix sibling documents of F9) ... *)
Hypothesis G_same : forall b m nref, G b (JObj m) -> has_ref m = true -> nuri (get_str "$ref" m) b = POk nref ->
  keeps_resolver (get_str "$ref" m) b nref -> nbase cwd (strip_frag nref) = nbase cwd (strip_frag b).
(* ... and the text written for a kept reference designates, from the root location, what the original text designated
   from its own document *)
Hypothesis G_render : forall b m nref s txt, G b (JObj m) -> has_ref m = true -> nuri (get_str "$ref" m) b = POk nref ->
  rootid s = rid -> (render_kept OP ctx_base s nref = POk txt \/ render_rebased ctx_base s nref = POk txt) ->
  sem_target txt ctx_base = sem_target (get_str "$ref" m) b.
Hypothesis strict : o_cont OP = false.

Lemma is_circular_Inv s nref parents : Inv s -> Inv (fst (is_circular s nref parents)).
Proof.
  intros [H1 H2]. unfold is_circular. destruct (mem_str nref (memo s)); [split; assumption|].
  destruct (mem_str nref parents); split; assumption.
Qed.

Section WalkSim.
Variable follow : st -> list string -> option string -> string -> json -> eres (st * json).
Hypothesis Hfollow : forall s ps rr b t s' t', G b t -> Inv s -> Coh rr b -> follow s ps rr b t = Done (s', t') ->
  Inv s' /\ bisimilar b t ctx_base t'.

Lemma esr_sim s parents rroot base m s' j' :
  G base (JObj m) -> has_ref m = true -> Inv s -> Coh rroot base ->
  expand_schema_ref E docs cwd OP ctx_base live follow s parents rroot base m = Done (s', j') ->
  Inv s' /\ bisimilar base (JObj m) ctx_base j'.
Proof.
  intros Hg Hr Hs Hcoh. unfold expand_schema_ref.
  destruct (nuri (get_str "$ref" m) base) as [nref| |] eqn:En; cbn [pbind]; try discriminate.
  pose proof (is_circular_Inv s nref parents Hs) as Hs1.
  destruct (is_circular s nref parents) as [s1 circ]. cbn [fst] in Hs1.
  destruct circ.
  - destruct (render_kept OP ctx_base s1 nref) as [txt| |] eqn:Ek; cbn [pbind]; try discriminate.
    intros H. inversion H; subst. split; [exact Hs1|]. intros n.
    apply sim_refs_same_target; [exact Hr|apply has_ref_set|]. rewrite get_ref_set.
    eapply G_render; [exact Hg|exact Hr|exact En|exact (proj2 Hs1)|left; exact Ek].
  - destruct (resolve E docs cwd live s1 rroot (get_str "$ref" m) base "Schema") as [[s2 t]|sf| |] eqn:Eres; try discriminate.
    + assert (Hsame := G_same _ _ _ Hg Hr En).
      destruct (resolve_sem _ _ _ _ _ _ _ Hs1 Hcoh En (fun Hl => Hsame (or_introl Hl)) Eres) as [Ht Hs2].
      intros H. apply ebind_done in H. destruct H as [rc [Htr Hf]].
      pose proof (transitive_coh _ _ _ _ _ _ Hcoh En Hsame Htr) as Hcoh'.
      pose proof (G_target _ _ _ _ Hg Hr Ht) as Hg'.
      destruct (Hfollow _ _ _ _ _ _ _ Hg' Hs2 Hcoh' Hf) as [Hs' Hb]. split; [exact Hs'|].
      intros n. eapply sim_ref_l; [exact Hr|exact Ht|apply Hb].
    + rewrite strict. discriminate.
Qed.

Theorem walk_sim : forall j s parents rroot base s' j',
  G base j -> Inv s -> Coh rroot base ->
  walk E docs cwd OP ctx_base live follow j s parents rroot base = Done (s', j') ->
  Inv s' /\ bisimilar base j ctx_base j'.
Proof.
  intros j. remember (jsize j) as n eqn:En. revert j En.
  induction n as [n IH] using lt_wf_ind. intros j En s parents rroot base s' j' Hg Hs Hcoh. subst n.
  destruct j as [| | | |l|m]; try (intros H; inversion H; subst; split; [exact Hs|intros k; apply sim_same_chase; intros bb mm; split; intros Hc; inversion Hc]).
  cbn [walk]. destruct (G_plain _ _ Hg) as [Hid Hne].
  destruct (match assoc "$ref" m with Some (JStr r) => String.eqb r "" | _ => false end) eqn:Eemp.
  { exfalso. destruct (assoc "$ref" m) as [[| | |r| |]|]; try discriminate. apply String.eqb_eq in Eemp. subst r. apply Hne. reflexivity. }
  unfold apply_id. rewrite Hid. cbn [String.eqb].
  destruct (has_ref m) eqn:Hr.
  - destruct (negb (o_skip OP)).
    + apply esr_sim; assumption.
    + destruct (nuri (get_str "$ref" m) base) as [nref| |] eqn:Enr; cbn [pbind]; try discriminate.
      destruct (render_rebased ctx_base s nref) as [txt| |] eqn:Ek; cbn [pbind]; try discriminate.
      intros H. inversion H; subst. split; [exact Hs|]. intros k.
      apply sim_refs_same_target; [exact Hr|apply has_ref_set|]. rewrite get_ref_set.
      eapply G_render; [exact Hg|exact Hr|exact Enr|exact (proj2 Hs)|right; exact Ek].
  - intros H. apply ebind_done in H. destruct H as [[s1 m1] [Hf H]]. cbn [fst snd] in H. inversion H; subst.
    pose (R := fun x x' => bisimilar base x ctx_base x').
    destruct (fold_members_rel (fun x s0 => walk E docs cwd OP ctx_base live follow x s0 parents rroot base) Inv R
                (fun x => jsize x < jsize (JObj m) /\ G base x)
                (fun x s0 s0' x' Hd Hs0 Hw => IH (jsize x) (proj1 Hd) x eq_refl s0 parents rroot base s0' x' (proj2 Hd) Hs0 Hcoh Hw)
                m s [] s' m1) as [Hs' [m2 [Hm HR]]].
    + intros k v x Hin Hc. split.
      * eapply Nat.le_lt_trans; [apply child_of_size; exact Hc|eapply jsize_value; exact Hin].
      * eapply G_child; eassumption.
    + exact Hs.
    + exact Hf.
    + cbn [rev app] in Hm. subst m1. split; [exact Hs'|]. intros k. apply sim_node; [exact Hr|].
      intros k0. eapply rel_members_mono; [|exact HR]. intros x x' Hb. apply Hb.
Qed.
End WalkSim.

Theorem exp_sim : forall d s parents rroot base j s' j',
  G base j -> Inv s -> Coh rroot base ->
  exp E docs cwd OP ctx_base live d s parents rroot base j = Done (s', j') ->
  Inv s' /\ bisimilar base j ctx_base j'.
Proof.
  induction d as [|d IH]; intros s parents rroot base j s' j' Hg Hs Hcoh; cbn [exp]; [discriminate|].
  apply walk_sim; assumption.
Qed.
End Sim.
