(* Facts about the expander model (Expand/Expand.v). *)
From Coq Require Import List String Ascii Bool Arith Lia.
From Spec Require Import Base.Json Base.JsonFacts Base.Url Codec.Types Codec.Codec Expand.Expand.
Import ListNotations.
Local Open Scope string_scope.

(* ---------- where OutOfFuel can come from: the generic traversals only pass it on ---------- *)
Section FoldOOF.
Variable W : json -> st -> eres (st * json).

Lemma fold_elems_oof : forall l s out, fold_elems W l s out = OOF -> exists x s', In x l /\ W x s' = OOF.
Proof.
  induction l as [|x r IH]; intros s out H; cbn [fold_elems] in H; [discriminate|].
  destruct x; try (destruct (IH _ _ H) as [y [s' [Hy Hw]]]; exists y, s'; split; [right; exact Hy|exact Hw]).
  destruct (W (JObj m) s) as [[s1 x1]|lg| |] eqn:Ew; try discriminate.
  - destruct (IH _ _ H) as [y [s' [Hy Hw]]]. exists y, s'. split; [right; exact Hy|exact Hw].
  - exists (JObj m), s. split; [left; reflexivity|exact Ew].
Qed.

Lemma fold_values_oof : forall l s out, fold_values W l s out = OOF -> exists k x s', In (k, x) l /\ W x s' = OOF.
Proof.
  induction l as [|[k x] r IH]; intros s out H; cbn [fold_values] in H; [discriminate|].
  destruct x; try (destruct (IH _ _ H) as [k' [y [s' [Hy Hw]]]]; exists k', y, s'; split; [right; exact Hy|exact Hw]).
  destruct (W (JObj m) s) as [[s1 x1]|lg| |] eqn:Ew; try discriminate.
  - destruct (IH _ _ H) as [k' [y [s' [Hy Hw]]]]. exists k', y, s'. split; [right; exact Hy|exact Hw].
  - exists k, (JObj m), s. split; [left; reflexivity|exact Ew].
Qed.

(* sub-schemas one keyword away *)
Inductive child_of : json -> json -> Prop :=
| co_self v : child_of v v
| co_elem l x : In x l -> child_of x (JArr l)
| co_value m k x : In (k, x) m -> child_of x (JObj m).

Lemma child_of_size x v : child_of x v -> jsize x <= jsize v.
Proof.
  intros H. inversion H; subst; [lia| |].
  - apply Nat.lt_le_incl. apply jsize_elem. assumption.
  - apply Nat.lt_le_incl. eapply jsize_value. eassumption.
Qed.

Lemma child_step_oof k v s : child_step W k v s = OOF -> exists x s', child_of x v /\ W x s' = OOF.
Proof.
  unfold child_step. intros H.
  destruct (mem_str k ["definitions"; "properties"; "patternProperties"; "dependencies"]).
  { destruct v; try discriminate. destruct (fold_values W m s []) as [[s1 vm]|lg| |] eqn:Ef; try discriminate.
    destruct (fold_values_oof _ _ _ Ef) as [k' [x [s' [Hin Hw]]]]. exists x, s'. split; [eapply co_value; exact Hin|exact Hw]. }
  destruct (mem_str k ["allOf"; "anyOf"; "oneOf"]).
  { destruct v; try discriminate. destruct (fold_elems W l s []) as [[s1 vm]|lg| |] eqn:Ef; try discriminate.
    destruct (fold_elems_oof _ _ _ Ef) as [x [s' [Hin Hw]]]. exists x, s'. split; [apply co_elem; exact Hin|exact Hw]. }
  destruct (String.eqb k "items").
  { destruct v; try discriminate.
    - destruct (fold_elems W l s []) as [[s1 vm]|lg| |] eqn:Ef; try discriminate.
      destruct (fold_elems_oof _ _ _ Ef) as [x [s' [Hin Hw]]]. exists x, s'. split; [apply co_elem; exact Hin|exact Hw].
    - exists (JObj m), s. split; [apply co_self|exact H]. }
  destruct (mem_str k ["not"; "additionalProperties"; "additionalItems"]); [|discriminate].
  destruct v; try discriminate. exists (JObj m), s. split; [apply co_self|exact H].
Qed.

Lemma fold_members_oof : forall m s out, fold_members W m s out = OOF ->
  exists k v x s', In (k, v) m /\ child_of x v /\ W x s' = OOF.
Proof.
  induction m as [|[k v] r IH]; intros s out H; cbn [fold_members] in H; [discriminate|].
  destruct (child_step W k v s) as [[s1 v1]|lg| |] eqn:Ec; try discriminate.
  - destruct (IH _ _ H) as [k' [v' [x [s' [Hin [Hc Hw]]]]]]. exists k', v', x, s'. split; [right; exact Hin|split; assumption].
  - destruct (child_step_oof _ _ _ Ec) as [x [s' [Hc Hw]]]. exists k, v, x, s'. split; [left; reflexivity|split; assumption].
Qed.
End FoldOOF.

(* ---------- the primitives never run out of fuel (they have none) ---------- *)
Lemma pbind_oof {A B} lg (p : presult A) (f : A -> eres B) : pbind lg p f = OOF -> exists a, p = POk a /\ f a = OOF.
Proof. destruct p; simpl; intros H; try discriminate. exists a. split; [reflexivity|exact H]. Qed.

Lemma ebind_oof {A B} (r : eres A) (f : A -> eres B) : ebind r f = OOF -> r = OOF \/ exists a, r = Done a /\ f a = OOF.
Proof. destruct r; simpl; intros H; try discriminate; [right; exists a; split; [reflexivity|exact H]|left; reflexivity]. Qed.

Lemma NoDup_app_snoc (l : list string) x : NoDup l -> ~ In x l -> NoDup (l ++ [x])%list.
Proof.
  intros Hn Hx. induction l as [|y r IH]; cbn; [constructor; [intros []|constructor]|].
  inversion Hn; subst. constructor.
  - intro Hin. apply in_app_or in Hin. destruct Hin as [Hin|[->|[]]]; [contradiction|apply Hx; left; reflexivity].
  - apply IH; [assumption|intro H; apply Hx; right; exact H].
Qed.

Lemma ebind_done {A B} (r : eres A) (f : A -> eres B) b : ebind r f = Done b -> exists a, r = Done a /\ f a = Done b.
Proof. destruct r; cbn; intros H; try discriminate. exists a. split; [reflexivity|exact H]. Qed.

Section Prims.
Variable E : env.
Variable docs : list (string * json).
Variable cwd : string.
Variable OP : opts.
Variable ctx_base : string.
Variable live : option (string * json).

Lemma load_not_oof s u : load docs cwd s u <> OOF.
Proof.
  unfold load. intros H. apply pbind_oof in H. destruct H as [n [_ H]].
  destruct (assoc n (cache s)); [discriminate|]. destruct (assoc n docs); discriminate.
Qed.

Lemma resolve_finish_not_oof ref kind toks s' d : resolve_finish E ref kind toks s' d <> OOF.
Proof.
  unfold resolve_finish. destruct (if String.eqb ref "" then Some d else ptr_get toks d) as [res|]; [|discriminate].
  destruct res; try discriminate. destruct (norm E false (JObj m) (TNamed kind)); discriminate.
Qed.

Lemma resolve_not_oof s rroot ref base kind : resolve E docs cwd live s rroot ref base kind <> OOF.
Proof.
  unfold resolve. intros H. apply pbind_oof in H. destruct H as [r [_ H]].
  cbv zeta in H.
  set (finish := resolve_finish E ref kind (ptr_tokens (u_frag (r_url r)))) in *.
  assert (Hfin : forall s' d, finish s' d <> OOF) by (intros; apply resolve_finish_not_oof).
  assert (Hurl : pbind s (nuri ref base) (fun full => ebind (load docs cwd s full) (fun sd => finish (fst sd) (snd sd))) <> OOF).
  { intros H2. apply pbind_oof in H2. destruct H2 as [full [_ H2]]. apply ebind_oof in H2.
    destruct H2 as [H2|[a [_ H2]]]; [eapply load_not_oof; exact H2|eapply Hfin; exact H2]. }
  destruct (is_root r || has_fragment_only r); [|exact (Hurl H)].
  destruct rroot as [ru|].
  - destruct live as [[lu ld]|].
    + destruct (String.eqb ru lu); [eapply Hfin; exact H|].
      destruct (load docs cwd s ru) as [[s' d]| | |]; solve [eapply Hfin; exact H | exact (Hurl H)].
    + destruct (load docs cwd s ru) as [[s' d]| | |]; solve [eapply Hfin; exact H | exact (Hurl H)].
  - destruct (String.eqb base ""); [exact (Hurl H)|].
    destruct (load docs cwd s base) as [[s' d]| | |]; solve [eapply Hfin; exact H | exact (Hurl H)].
Qed.

Lemma transitive_not_oof s rroot base ref : transitive s rroot base ref <> OOF.
Proof.
  unfold transitive. intros H. apply pbind_oof in H. destruct H as [r [_ H]].
  destruct (is_root r || has_fragment_only r); [discriminate|].
  apply pbind_oof in H. destruct H as [cur [_ H]]. apply pbind_oof in H. destruct H as [br [_ H]].
  destruct (str_prefix (l2s (ref_string br)) cur); discriminate.
Qed.

Lemma apply_id_not_oof s m base : apply_id ctx_base s m base <> OOF.
Proof.
  unfold apply_id. destruct (String.eqb (get_str "id" m) ""); [discriminate|].
  intros H. apply pbind_oof in H. destruct H as [nb [_ H]]. discriminate.
Qed.

Lemma is_circular_fresh s nref parents s1 : is_circular s nref parents = (s1, false) -> ~ In nref parents.
Proof.
  unfold is_circular. destruct (mem_str nref (memo s)); [discriminate|].
  destruct (mem_str nref parents) eqn:Em; [discriminate|]. intros _ Hin.
  assert (G : forall l, In nref l -> mem_str nref l = true).
  { induction l as [|x r IH]; intros Hl; [destruct Hl|]. simpl. destruct Hl as [->|Hl]; [rewrite String.eqb_refl; reflexivity|].
    rewrite (IH Hl). apply orb_true_r. }
  rewrite (G _ Hin) in Em. discriminate.
Qed.

(* a canonical reference: something normalizeURI produced *)
Definition canonical_output (x : string) : Prop := exists r b, nuri r b = POk x.

Section WalkOOF.
Variable follow : st -> list string -> option string -> string -> json -> eres (st * json).

(* the walk runs out of fuel only inside a [follow] entered with the stack extended by a fresh canonical ref *)
Definition from_follow (parents : list string) : Prop :=
  exists s' nref rroot' base' t,
    canonical_output nref /\ ~ In nref parents /\ follow s' (parents ++ [nref])%list rroot' base' t = OOF.

Lemma expand_schema_ref_oof s parents rroot base m :
  expand_schema_ref E docs cwd OP ctx_base live follow s parents rroot base m = OOF -> from_follow parents.
Proof.
  unfold expand_schema_ref. intros H. apply pbind_oof in H. destruct H as [nref [Hn H]].
  destruct (is_circular s nref parents) as [s1 circ] eqn:Ec.
  destruct circ.
  - apply pbind_oof in H. destruct H as [txt [_ H]]. discriminate.
  - destruct (resolve E docs cwd live s1 rroot (get_str "$ref" m) base "Schema") as [[s2 t]|lg| |] eqn:Er.
    + apply ebind_oof in H. destruct H as [H|[rc [_ H]]]; [exfalso; eapply transitive_not_oof; exact H|].
      exists s2, nref, (fst rc), (strip_frag nref), t. split; [|split].
      * exists (get_str "$ref" m), base. exact Hn.
      * eapply is_circular_fresh. exact Ec.
      * exact H.
    + destruct (o_cont OP); [destruct (dfail lg)|]; discriminate.
    + exfalso. eapply resolve_not_oof. exact Er.
    + discriminate.
Qed.

Theorem walk_oof : forall j s parents rroot base,
  walk E docs cwd OP ctx_base live follow j s parents rroot base = OOF -> from_follow parents.
Proof.
  intros j. remember (jsize j) as n eqn:En. revert j En.
  induction n as [n IH] using lt_wf_ind. intros j En s parents rroot base H. subst n.
  destruct j as [| | | |l|m]; try discriminate.
  cbn [walk] in H.
  destruct (match assoc "$ref" m with Some (JStr r) => String.eqb r "" | _ => false end); [discriminate|].
  destruct (apply_id ctx_base s m base) as [[s0 base0]|lg| |] eqn:Ea; try discriminate.
  - destruct (has_ref m).
    + destruct (negb (o_skip OP)).
      * eapply expand_schema_ref_oof. exact H.
      * apply pbind_oof in H. destruct H as [nref [_ H]]. apply pbind_oof in H. destruct H as [txt [_ H]]. discriminate.
    + apply ebind_oof in H. destruct H as [H|[a [_ H]]]; [|discriminate].
      apply fold_members_oof in H. destruct H as [k [v [x [s' [Hin [Hc Hw]]]]]].
      assert (Hlt : jsize x < jsize (JObj m)).
      { eapply Nat.le_lt_trans; [apply child_of_size; exact Hc|eapply jsize_value; exact Hin]. }
      eapply (IH (jsize x) Hlt x eq_refl). exact Hw.
  - exfalso. eapply apply_id_not_oof. exact Ea.
Qed.
End WalkOOF.

(* ---------- the pigeonhole: running out of fuel d exhibits d distinct canonical refs nested in one another ---------- *)
Theorem exp_oof : forall d s parents rroot base j,
  exp E docs cwd OP ctx_base live d s parents rroot base j = OOF ->
  exists ps, List.length ps = d /\ (NoDup parents -> NoDup (parents ++ ps)%list) /\ Forall canonical_output ps.
Proof.
  induction d as [|d IH]; intros s parents rroot base j H.
  - exists []. split; [reflexivity|]. split; [rewrite app_nil_r; auto|constructor].
  - cbn [exp] in H. apply walk_oof in H.
    destruct H as [s' [nref [rroot' [base' [t [Hc [Hfresh H]]]]]]].
    destruct (IH _ _ _ _ _ H) as [ps [Hlen [Hnd Hall]]].
    exists (nref :: ps). split; [cbn; rewrite Hlen; reflexivity|]. split; [|constructor; assumption].
    intros Hp. replace (parents ++ nref :: ps)%list with ((parents ++ [nref]) ++ ps)%list by (rewrite <- app_assoc; reflexivity).
    apply Hnd. apply NoDup_app_snoc; assumption.
Qed.

(* the bound this yields is stated relative to the reference graph in ExpandTermG.v (a bound over ALL canonical references
   would be empty: normalizeURI has infinitely many outputs) *)
End Prims.

(* ---------- state invariants are carried through the whole traversal ---------- *)
Definition pres {A} (P : st -> Prop) (r : eres (st * A)) : Prop :=
  match r with Done (s', _) => P s' | _ => True end.

Section FoldPres.
Variable P : st -> Prop.
Variable W : json -> st -> eres (st * json).
Hypothesis HW : forall x s, P s -> pres P (W x s).

Lemma fold_elems_pres : forall l s out, P s -> pres P (fold_elems W l s out).
Proof.
  induction l as [|x r IH]; intros s out Hs; cbn [fold_elems]; [exact Hs|].
  destruct x; try (apply IH; exact Hs).
  pose proof (HW (JObj m) s Hs) as Hx. destruct (W (JObj m) s) as [[s1 x1]|lg| |]; cbn in *; try exact I.
  apply IH. exact Hx.
Qed.

Lemma fold_values_pres : forall l s out, P s -> pres P (fold_values W l s out).
Proof.
  induction l as [|[k x] r IH]; intros s out Hs; cbn [fold_values]; [exact Hs|].
  destruct x; try (apply IH; exact Hs).
  pose proof (HW (JObj m) s Hs) as Hx. destruct (W (JObj m) s) as [[s1 x1]|lg| |]; cbn in *; try exact I.
  apply IH. exact Hx.
Qed.

Lemma child_step_pres k v s : P s -> pres P (child_step W k v s).
Proof.
  intros Hs. unfold child_step.
  destruct (mem_str k ["definitions"; "properties"; "patternProperties"; "dependencies"]).
  { destruct v; try exact Hs. pose proof (fold_values_pres m s [] Hs) as H.
    destruct (fold_values W m s []) as [[s1 vm]|lg| |]; cbn in *; auto. }
  destruct (mem_str k ["allOf"; "anyOf"; "oneOf"]).
  { destruct v; try exact Hs. pose proof (fold_elems_pres l s [] Hs) as H.
    destruct (fold_elems W l s []) as [[s1 vm]|lg| |]; cbn in *; auto. }
  destruct (String.eqb k "items").
  { destruct v; try exact Hs.
    - pose proof (fold_elems_pres l s [] Hs) as H. destruct (fold_elems W l s []) as [[s1 vm]|lg| |]; cbn in *; auto.
    - apply HW. exact Hs. }
  destruct (mem_str k ["not"; "additionalProperties"; "additionalItems"]); [|exact Hs].
  destruct v; try exact Hs. apply HW. exact Hs.
Qed.

Lemma fold_members_pres : forall m s out, P s -> pres P (fold_members W m s out).
Proof.
  induction m as [|[k v] r IH]; intros s out Hs; cbn [fold_members]; [exact Hs|].
  pose proof (child_step_pres k v s Hs) as Hx.
  destruct (child_step W k v s) as [[s1 v1]|lg| |]; cbn in *; try exact I. apply IH. exact Hx.
Qed.
End FoldPres.

Lemma pbind_pres {A B} (P : st -> Prop) lg (p : presult A) (f : A -> eres (st * B)) :
  (forall a, pres P (f a)) -> pres P (pbind lg p f).
Proof. intros H. destruct p; cbn; auto. Qed.

Lemma ebind_pres {A B} (P : st -> Prop) (r : eres (st * A)) (f : st * A -> eres (st * B)) :
  pres P r -> (forall s a, P s -> pres P (f (s, a))) -> pres P (ebind r f).
Proof. intros Hr Hf. destruct r as [[s a]|lg| |]; cbn in *; auto. Qed.

(* the invariant of the document cache, relative to the cache [c0] the expansion started with and to
   the documents the loader serves: each served document is requested once, only if it was not
   already cached, and everything served is cached.  (A request the loader refuses is not cached —
   neither by the Go code — and may therefore be repeated.) *)
Definition keys_of (c : list (string * json)) : list string := map fst c.
Definition served (docs : list (string * json)) (lg : list string) : list string :=
  filter (fun u => match assoc u docs with Some _ => true | None => false end) lg.

Record cache_inv (docs c0 : list (string * json)) (s : st) : Prop := {
  ci_nodup : NoDup (served docs (log s));
  ci_logged_cached : incl (served docs (log s)) (keys_of (cache s));
  ci_not_preloaded : forall u, In u (served docs (log s)) -> ~ In u (keys_of c0);
  ci_grows : incl (keys_of c0) (keys_of (cache s)) }.

Lemma assoc_none_keys {A} k (l : list (string * A)) : assoc k l = None -> ~ In k (map fst l).
Proof.
  induction l as [|[k' v] r IH]; cbn; intros H; [intros []|].
  destruct (String.eqb k k') eqn:Ek; [discriminate|]. apply String.eqb_neq in Ek.
  intros [Hk|Hk]; [apply Ek; symmetry; exact Hk|exact (IH H Hk)].
Qed.

Section Inv.
Variable E : env.
Variable docs : list (string * json).
Variable cwd : string.
Variable OP : opts.
Variable ctx_base : string.
Variable live : option (string * json).
Variable c0 : list (string * json).
Let P := cache_inv docs c0.

(* errors keep the invariant too: the failed state is the one expansion continues from *)
Definition pres_all {A} (r : eres (st * A)) : Prop :=
  match r with Done (s', _) => P s' | Failed sf => P sf | _ => True end.

Lemma pbind_all {A B} sf (p : presult A) (f : A -> eres (st * B)) :
  P sf -> (forall a, pres_all (f a)) -> pres_all (pbind sf p f).
Proof. intros Hs H. destruct p; cbn; auto. Qed.
Lemma ebind_all {A B} (r : eres (st * A)) (f : st * A -> eres (st * B)) :
  pres_all r -> (forall s a, P s -> pres_all (f (s, a))) -> pres_all (ebind r f).
Proof. intros Hr Hf. destruct r as [[s a]|sf| |]; cbn in *; auto. Qed.

Lemma load_inv s u : P s -> pres_all (load docs cwd s u).
Proof.
  intros Hs. pose proof Hs as [H1 H2 H3 H4]. unfold load. apply pbind_all; [exact Hs|]. intros n.
  destruct (assoc n (cache s)) eqn:Ec; [exact Hs|].
  pose proof (assoc_none_keys _ _ Ec) as Hn.
  destruct (assoc n docs) eqn:Ed; cbn.
  - assert (Hsv : served docs (n :: log s) = n :: served docs (log s)) by (unfold served; cbn [filter]; rewrite Ed; reflexivity).
    constructor; cbn [log cache]; try rewrite Hsv.
    + constructor; [intro Hin; apply Hn; apply H2; exact Hin|exact H1].
    + intros x [<-|Hx]; [left; reflexivity|right; apply H2; exact Hx].
    + intros x [<-|Hx]; [intro Hc; apply Hn; apply H4; exact Hc|apply H3; exact Hx].
    + intros x Hx. right. apply H4. exact Hx.
  - assert (Hsv : served docs (n :: log s) = served docs (log s)) by (unfold served; cbn [filter]; rewrite Ed; reflexivity).
    constructor; cbn [log cache]; try rewrite Hsv; assumption.
Qed.

Lemma set_dfail_inv s b : P s -> P (set_dfail s b).
Proof. intros [H1 H2 H3 H4]. constructor; assumption. Qed.

Lemma resolve_finish_inv ref kind toks s' d : P s' -> pres_all (resolve_finish E ref kind toks s' d).
Proof.
  intros Hs'. unfold resolve_finish.
  destruct (if String.eqb ref "" then Some d else ptr_get toks d) as [res|]; [|apply set_dfail_inv; exact Hs'].
  destruct res; try (apply set_dfail_inv; exact Hs').
  destruct (norm E false (JObj m) (TNamed kind)); cbn; try exact I; apply set_dfail_inv; exact Hs'.
Qed.

Lemma resolve_inv s rroot ref base kind : P s -> pres_all (resolve E docs cwd live s rroot ref base kind).
Proof.
  intros Hs. unfold resolve. apply pbind_all; [exact Hs|]. intros r. cbv zeta.
  set (finish := resolve_finish E ref kind (ptr_tokens (u_frag (r_url r)))).
  assert (Hfin : forall s' d, P s' -> pres_all (finish s' d)) by (intros; apply resolve_finish_inv; assumption).
  assert (Hurl : pres_all (pbind s (nuri ref base) (fun full => ebind (load docs cwd s full) (fun sd => finish (fst sd) (snd sd))))).
  { apply pbind_all; [exact Hs|]. intros full. apply ebind_all; [apply load_inv; exact Hs|]. intros s' a Hs'. apply Hfin. exact Hs'. }
  assert (Hvia : forall u, pres_all (match load docs cwd s u with
                                     | Done (s', d) => finish s' d
                                     | _ => pbind s (nuri ref base) (fun full => ebind (load docs cwd s full) (fun sd => finish (fst sd) (snd sd)))
                                     end)).
  { intros u. pose proof (load_inv s u Hs) as Hl. destruct (load docs cwd s u) as [[s' d]|lg| |]; cbn in Hl; try exact Hurl. apply Hfin. exact Hl. }
  destruct (is_root r || has_fragment_only r); [|exact Hurl].
  destruct rroot as [ru|].
  - destruct live as [[lu ld]|].
    + destruct (String.eqb ru lu); [apply Hfin; exact Hs|apply Hvia].
    + apply Hvia.
  - destruct (String.eqb base ""); [exact Hurl|apply Hvia].
Qed.

Lemma set_memo_inv s m : P s -> P (set_memo s m).
Proof. intros [H1 H2 H3 H4]. constructor; assumption. Qed.

Lemma is_circular_inv s nref parents : P s -> P (fst (is_circular s nref parents)).
Proof.
  intros Hs. unfold is_circular. destruct (mem_str nref (memo s)); [exact Hs|].
  destruct (mem_str nref parents); [apply set_memo_inv; exact Hs|exact Hs].
Qed.

Lemma apply_id_inv s m base : P s -> pres_all (apply_id ctx_base s m base).
Proof.
  intros Hs. pose proof Hs as [H1 H2 H3 H4]. unfold apply_id. destruct (String.eqb (get_str "id" m) ""); [exact Hs|].
  apply pbind_all; [exact Hs|]. intros nb. cbn.
  assert (G : cache_inv docs c0 (set_cache s ((nb, JObj m) :: cache s))).
  { constructor; cbn [log cache set_cache]; try assumption.
    - intros x Hx. right. apply H2. exact Hx.
    - intros x Hx. right. apply H4. exact Hx. }
  destruct (String.eqb base ctx_base); [|exact G].
  destruct G as [G1 G2 G3 G4]. constructor; assumption.
Qed.

Lemma transitive_all s rroot base ref : P s ->
  match transitive s rroot base ref with Failed sf => P sf | _ => True end.
Proof.
  intros Hs. unfold transitive. destruct (new_ref (s2l ref)) as [r| |]; cbn; auto.
  destruct (is_root r || has_fragment_only r); [exact I|].
  destruct (nuri ref base) as [cur| |]; cbn; auto.
  destruct (new_ref (s2l base)) as [br| |]; cbn; auto.
  destruct (str_prefix (l2s (ref_string br)) cur); exact I.
Qed.

Section WalkInv.
Variable follow : st -> list string -> option string -> string -> json -> eres (st * json).
Hypothesis Hfollow : forall s ps rr b t, P s -> pres_all (follow s ps rr b t).

Lemma expand_schema_ref_inv s parents rroot base m :
  P s -> pres_all (expand_schema_ref E docs cwd OP ctx_base live follow s parents rroot base m).
Proof.
  intros Hs. unfold expand_schema_ref. apply pbind_all; [exact Hs|]. intros nref.
  pose proof (is_circular_inv s nref parents Hs) as Hc.
  destruct (is_circular s nref parents) as [s1 circ]. cbn [fst] in Hc.
  destruct circ.
  - apply pbind_all; [exact Hc|]. intros txt. exact Hc.
  - pose proof (resolve_inv s1 rroot (get_str "$ref" m) base "Schema" Hc) as Hr.
    destruct (resolve E docs cwd live s1 rroot (get_str "$ref" m) base "Schema") as [[s2 t]|sf| |]; cbn in Hr; try exact I.
    + pose proof (transitive_all s2 rroot base (get_str "$ref" m) Hr) as Ht.
      unfold ebind. destruct (transitive s2 rroot base (get_str "$ref" m)) as [rc|sf| |]; try exact I; [|exact Ht].
      apply Hfollow. exact Hr.
    + destruct (o_cont OP); [|exact Hr]. destruct (dfail sf); [apply set_dfail_inv; exact Hr|exact Hr].
Qed.

(* the generic folds with the stronger "errors too" predicate; [Q] restricts the elements W must handle *)
Section FoldAll.
Variable W : json -> st -> eres (st * json).
Variable Q : json -> Prop.
Hypothesis HW : forall x s, Q x -> P s -> pres_all (W x s).

Lemma fold_elems_all : forall l s out, (forall x, In x l -> Q x) -> P s -> pres_all (fold_elems W l s out).
Proof.
  induction l as [|x r IH]; intros s out HQ Hs; cbn [fold_elems]; [exact Hs|].
  assert (HQr : forall y, In y r -> Q y) by (intros; apply HQ; right; assumption).
  destruct x; try (apply IH; assumption).
  pose proof (HW (JObj m) s (HQ _ (or_introl eq_refl)) Hs) as Hx.
  destruct (W (JObj m) s) as [[s1 x1]|sf| |]; cbn in *; auto.
Qed.
Lemma fold_values_all : forall l s out, (forall k x, In (k, x) l -> Q x) -> P s -> pres_all (fold_values W l s out).
Proof.
  induction l as [|[k x] r IH]; intros s out HQ Hs; cbn [fold_values]; [exact Hs|].
  assert (HQr : forall k' y, In (k', y) r -> Q y) by (intros; eapply HQ; right; eassumption).
  destruct x; try (apply IH; assumption).
  pose proof (HW (JObj m) s (HQ k _ (or_introl eq_refl)) Hs) as Hx.
  destruct (W (JObj m) s) as [[s1 x1]|sf| |]; cbn in *; auto.
Qed.
Lemma child_step_all k v s : (forall x, child_of x v -> Q x) -> P s -> pres_all (child_step W k v s).
Proof.
  intros HQ Hs. unfold child_step.
  destruct (mem_str k ["definitions"; "properties"; "patternProperties"; "dependencies"]).
  { destruct v; try exact Hs.
    assert (H : pres_all (fold_values W m s [])) by (apply fold_values_all; [intros; apply HQ; eapply co_value; eassumption|exact Hs]).
    destruct (fold_values W m s []) as [[s1 vm]|sf| |]; cbn in *; auto. }
  destruct (mem_str k ["allOf"; "anyOf"; "oneOf"]).
  { destruct v; try exact Hs.
    assert (H : pres_all (fold_elems W l s [])) by (apply fold_elems_all; [intros; apply HQ; apply co_elem; assumption|exact Hs]).
    destruct (fold_elems W l s []) as [[s1 vm]|sf| |]; cbn in *; auto. }
  destruct (String.eqb k "items").
  { destruct v; try exact Hs.
    - assert (H : pres_all (fold_elems W l s [])) by (apply fold_elems_all; [intros; apply HQ; apply co_elem; assumption|exact Hs]).
      destruct (fold_elems W l s []) as [[s1 vm]|sf| |]; cbn in *; auto.
    - apply HW; [apply HQ; apply co_self|exact Hs]. }
  destruct (mem_str k ["not"; "additionalProperties"; "additionalItems"]); [|exact Hs].
  destruct v; try exact Hs. apply HW; [apply HQ; apply co_self|exact Hs].
Qed.
Lemma fold_members_all : forall m s out, (forall k v x, In (k, v) m -> child_of x v -> Q x) -> P s -> pres_all (fold_members W m s out).
Proof.
  induction m as [|[k v] r IH]; intros s out HQ Hs; cbn [fold_members]; [exact Hs|].
  assert (Hx : pres_all (child_step W k v s)) by (apply child_step_all; [intros; eapply HQ; [left; reflexivity|assumption]|exact Hs]).
  destruct (child_step W k v s) as [[s1 v1]|sf| |]; cbn in *; auto.
  apply IH; [intros; eapply HQ; [right; eassumption|assumption]|exact Hx].
Qed.
End FoldAll.

Theorem walk_inv : forall j s parents rroot base,
  P s -> pres_all (walk E docs cwd OP ctx_base live follow j s parents rroot base).
Proof.
  intros j. remember (jsize j) as n eqn:En. revert j En.
  induction n as [n IH] using lt_wf_ind. intros j En s parents rroot base Hs. subst n.
  destruct j as [| | | |l|m]; try exact Hs.
  cbn [walk].
  destruct (match assoc "$ref" m with Some (JStr r) => String.eqb r "" | _ => false end); [exact Hs|].
  pose proof (apply_id_inv s m base Hs) as Ha.
  destruct (apply_id ctx_base s m base) as [[s0 base0]|sf| |]; cbn in Ha; try exact I; [|exact Ha].
  destruct (has_ref m).
  - destruct (negb (o_skip OP)).
    + apply expand_schema_ref_inv. exact Ha.
    + apply pbind_all; [exact Ha|]. intros nref. apply pbind_all; [exact Ha|]. intros txt. exact Ha.
  - apply ebind_all.
    + apply (fold_members_all _ (fun x => jsize x < jsize (JObj m))).
      * intros x s1 Hx Hs1. eapply (IH (jsize x) Hx x eq_refl). exact Hs1.
      * intros k v x Hin Hc. eapply Nat.le_lt_trans; [apply child_of_size; exact Hc|eapply jsize_value; exact Hin].
      * exact Ha.
    + intros s1 a Hs1. exact Hs1.
Qed.
End WalkInv.

Theorem exp_inv : forall d s parents rroot base j,
  P s -> pres_all (exp E docs cwd OP ctx_base live d s parents rroot base j).
Proof.
  induction d as [|d IH]; intros s parents rroot base j Hs; cbn [exp]; [exact I|].
  apply walk_inv; [|exact Hs]. intros s' ps rr b t Hs'. apply IH. exact Hs'.
Qed.
End Inv.

(* ---------- resolution (C05) ---------- *)
(* RFC 6901 escaping of one token, and its inverse as the resolver applies it *)
Fixpoint escape_tok (s : chars) : chars :=
  match s with
  | [] => []
  | c :: r => if Ascii.eqb c "~" then "~"%char :: "0"%char :: escape_tok r
              else if Ascii.eqb c "/" then "~"%char :: "1"%char :: escape_tok r
              else c :: escape_tok r
  end.

Lemma unescape_escape_tok : forall s, unescape_tok (escape_tok s) = s.
Proof.
  induction s as [|c r IH]; [reflexivity|]. cbn [escape_tok].
  destruct (Ascii.eqb c "~") eqn:E1.
  - apply Ascii.eqb_eq in E1. subst c. cbn [unescape_tok]. rewrite IH. reflexivity.
  - destruct (Ascii.eqb c "/") eqn:E2.
    + apply Ascii.eqb_eq in E2. subst c. cbn [unescape_tok]. rewrite IH. reflexivity.
    + (* an ordinary character is copied; it is not "~" so no escape starts here *)
      assert (H : forall t, unescape_tok (c :: t) = c :: unescape_tok t).
      { intros t. destruct c as [b0 b1 b2 b3 b4 b5 b6 b7].
        destruct b0, b1, b2, b3, b4, b5, b6, b7; try reflexivity; discriminate E1. }
      rewrite H, IH. reflexivity.
Qed.

(* a token written with ~0/~1 escapes never contains "/": splitting the pointer at "/" recovers the tokens *)
Lemma escape_tok_no_slash : forall s, mem_char "/"%char (escape_tok s) = false.
Proof.
  induction s as [|c r IH]; [reflexivity|]. cbn [escape_tok].
  destruct (Ascii.eqb c "~") eqn:E1; [exact IH|].
  destruct (Ascii.eqb c "/") eqn:E2; [exact IH|].
  unfold mem_char in *. cbn [existsb]. rewrite IH. unfold ceq. rewrite Ascii.eqb_sym, E2. reflexivity.
Qed.

(* evaluation of a pointer: one member / element per token, an error as soon as a token designates nothing *)
Lemma ptr_get_nil j : ptr_get [] j = Some j.
Proof. reflexivity. Qed.
Lemma ptr_get_member t r m : ptr_get (t :: r) (JObj m) = match assoc t m with Some v => ptr_get r v | None => None end.
Proof. reflexivity. Qed.
Lemma ptr_get_scalar t r j : (forall m, j <> JObj m) -> (forall l, j <> JArr l) -> ptr_get (t :: r) j = None.
Proof. intros H1 H2. destruct j; try reflexivity; [exfalso; eapply H2; reflexivity|exfalso; eapply H1; reflexivity]. Qed.

Section ResolveSpec.
Variable E : env.
Variable docs : list (string * json).
Variable cwd : string.
Variable live : option (string * json).

(* a successful resolution returns the typed decoding of exactly the designated sub-document — never a
   zero value: the pointer designated an OBJECT [res] of the document and [v] is its decoding *)
Theorem resolve_finish_done ref kind toks s' data s'' v :
  resolve_finish E ref kind toks s' data = Done (s'', v) ->
  exists res m, res = JObj m /\ (if String.eqb ref "" then Some data else ptr_get toks data) = Some res
                /\ norm E false res (TNamed kind) = ROk v.
Proof.
  unfold resolve_finish. destruct (if String.eqb ref "" then Some data else ptr_get toks data) as [res|]; [|discriminate].
  destruct res; try discriminate. destruct (norm E false (JObj m) (TNamed kind)) eqn:En; try discriminate.
  intros H. inversion H; subst. exists (JObj m), m. repeat split; assumption.
Qed.

(* a reference with a URI part: the document is the one normalizeURI designates (fragment removed) *)
Theorem resolve_by_url s rroot ref base kind r full :
  new_ref (s2l ref) = POk r -> is_root r || has_fragment_only r = false ->
  nuri ref base = POk full ->
  resolve E docs cwd live s rroot ref base kind
  = ebind (load docs cwd s full) (fun sd => resolve_finish E ref kind (ptr_tokens (u_frag (r_url r))) (fst sd) (snd sd)).
Proof.
  intros Hr Hl Hn. unfold resolve. rewrite Hr. cbn [pbind]. rewrite Hl, Hn. reflexivity.
Qed.

(* the answer does not depend on how the root is supplied when the reference has a URI part *)
Theorem resolve_root_irrelevant s rroot rroot' ref base kind r :
  new_ref (s2l ref) = POk r -> is_root r || has_fragment_only r = false ->
  resolve E docs cwd live s rroot ref base kind = resolve E docs cwd live s rroot' ref base kind.
Proof. intros Hr Hl. unfold resolve. rewrite Hr. cbn [pbind]. rewrite Hl. reflexivity. Qed.
End ResolveSpec.

(* ---------- errors are never invented and never swallowed by the traversal (C08) ---------- *)
Section FoldFail.
Variable W : json -> st -> eres (st * json).

Lemma fold_elems_failed : forall l s out sf, fold_elems W l s out = Failed sf -> exists x s', In x l /\ W x s' = Failed sf.
Proof.
  induction l as [|x r IH]; intros s out sf H; cbn [fold_elems] in H; [discriminate|].
  destruct x; try (destruct (IH _ _ _ H) as [y [s' [Hy Hw]]]; exists y, s'; split; [right; exact Hy|exact Hw]).
  destruct (W (JObj m) s) as [[s1 x1]|sf1| |] eqn:Ew; try discriminate.
  - destruct (IH _ _ _ H) as [y [s' [Hy Hw]]]. exists y, s'. split; [right; exact Hy|exact Hw].
  - inversion H; subst. exists (JObj m), s. split; [left; reflexivity|exact Ew].
Qed.

Lemma fold_values_failed : forall l s out sf, fold_values W l s out = Failed sf -> exists k x s', In (k, x) l /\ W x s' = Failed sf.
Proof.
  induction l as [|[k x] r IH]; intros s out sf H; cbn [fold_values] in H; [discriminate|].
  destruct x; try (destruct (IH _ _ _ H) as [k' [y [s' [Hy Hw]]]]; exists k', y, s'; split; [right; exact Hy|exact Hw]).
  destruct (W (JObj m) s) as [[s1 x1]|sf1| |] eqn:Ew; try discriminate.
  - destruct (IH _ _ _ H) as [k' [y [s' [Hy Hw]]]]. exists k', y, s'. split; [right; exact Hy|exact Hw].
  - inversion H; subst. exists k, (JObj m), s. split; [left; reflexivity|exact Ew].
Qed.

Lemma child_step_failed k v s sf : child_step W k v s = Failed sf -> exists x s', child_of x v /\ W x s' = Failed sf.
Proof.
  unfold child_step. intros H.
  destruct (mem_str k ["definitions"; "properties"; "patternProperties"; "dependencies"]).
  { destruct v; try discriminate. destruct (fold_values W m s []) as [[s1 vm]|sf1| |] eqn:Ef; try discriminate.
    inversion H; subst. destruct (fold_values_failed _ _ _ _ Ef) as [k' [x [s' [Hin Hw]]]]. exists x, s'. split; [eapply co_value; exact Hin|exact Hw]. }
  destruct (mem_str k ["allOf"; "anyOf"; "oneOf"]).
  { destruct v; try discriminate. destruct (fold_elems W l s []) as [[s1 vm]|sf1| |] eqn:Ef; try discriminate.
    inversion H; subst. destruct (fold_elems_failed _ _ _ _ Ef) as [x [s' [Hin Hw]]]. exists x, s'. split; [apply co_elem; exact Hin|exact Hw]. }
  destruct (String.eqb k "items").
  { destruct v; try discriminate.
    - destruct (fold_elems W l s []) as [[s1 vm]|sf1| |] eqn:Ef; try discriminate.
      inversion H; subst. destruct (fold_elems_failed _ _ _ _ Ef) as [x [s' [Hin Hw]]]. exists x, s'. split; [apply co_elem; exact Hin|exact Hw].
    - exists (JObj m), s. split; [apply co_self|exact H]. }
  destruct (mem_str k ["not"; "additionalProperties"; "additionalItems"]); [|discriminate].
  destruct v; try discriminate. exists (JObj m), s. split; [apply co_self|exact H].
Qed.

Lemma fold_members_failed : forall m s out sf, fold_members W m s out = Failed sf ->
  exists k v x s', In (k, v) m /\ child_of x v /\ W x s' = Failed sf.
Proof.
  induction m as [|[k v] r IH]; intros s out sf H; cbn [fold_members] in H; [discriminate|].
  destruct (child_step W k v s) as [[s1 v1]|sf1| |] eqn:Ec; try discriminate.
  - destruct (IH _ _ _ H) as [k' [v' [x [s' [Hin [Hc Hw]]]]]]. exists k', v', x, s'. split; [right; exact Hin|split; assumption].
  - inversion H; subst. destruct (child_step_failed _ _ _ _ Ec) as [x [s' [Hc Hw]]]. exists k, v, x, s'. split; [left; reflexivity|split; assumption].
Qed.

(* conversely a failing child is never skipped over: the fold stops at the first failure *)
Lemma fold_elems_stops : forall l1 x l2 s out sf,
  (forall y, In y l1 -> forall s0, exists s1 y1, W y s0 = Done (s1, y1)) ->
  (forall s0, W x s0 = Failed sf \/ exists sf', W x s0 = Failed sf') ->
  (exists m, x = JObj m) ->
  exists sf', fold_elems W (l1 ++ x :: l2) s out = Failed sf'.
Proof.
  induction l1 as [|y r IH]; intros x l2 s out sf Hok Hx [m ->]; cbn [app fold_elems].
  - destruct (Hx s) as [H|[sf' H]]; rewrite H; eauto.
  - destruct y; try (apply (IH _ _ _ _ sf); [intros; apply Hok; right; assumption|exact Hx|eauto]).
    destruct (Hok (JObj m0) (or_introl eq_refl) s) as [s1 [y1 Hy]]. rewrite Hy.
    apply (IH _ _ _ _ sf); [intros; apply Hok; right; assumption|exact Hx|eauto].
Qed.
End FoldFail.

Section ErrorSemantics.
Variable E : env.
Variable docs : list (string * json).
Variable cwd : string.
Variable OP : opts.
Variable ctx_base : string.
Variable live : option (string * json).
Variable follow : st -> list string -> option string -> string -> json -> eres (st * json).

(* strict mode: an unresolvable schema reference is an error *)
Theorem esr_strict s parents rroot base m nref s1 sf :
  o_cont OP = false ->
  nuri (get_str "$ref" m) base = POk nref -> is_circular s nref parents = (s1, false) ->
  resolve E docs cwd live s1 rroot (get_str "$ref" m) base "Schema" = Failed sf ->
  expand_schema_ref E docs cwd OP ctx_base live follow s parents rroot base m = Failed sf.
Proof.
  intros Hc Hn Hci Hr. unfold expand_schema_ref. rewrite Hn. cbn [pbind]. rewrite Hci, Hr, Hc. reflexivity.
Qed.

(* continue mode: the same reference is left verbatim where it was (target missing: document or pointer) *)
Theorem esr_continue_verbatim s parents rroot base m nref s1 sf :
  o_cont OP = true ->
  nuri (get_str "$ref" m) base = POk nref -> is_circular s nref parents = (s1, false) ->
  resolve E docs cwd live s1 rroot (get_str "$ref" m) base "Schema" = Failed sf -> dfail sf = false ->
  expand_schema_ref E docs cwd OP ctx_base live follow s parents rroot base m = Done (sf, JObj m).
Proof.
  intros Hc Hn Hci Hr Hd. unfold expand_schema_ref. rewrite Hn. cbn [pbind]. rewrite Hci, Hr, Hc, Hd. reflexivity.
Qed.

(* continue mode, ill-typed target (found, but a string/number/boolean/array or undecodable): the holder is left
   verbatim as well (before the repair of F22 it became the empty schema) *)
Theorem esr_continue_illtyped s parents rroot base m nref s1 sf :
  o_cont OP = true ->
  nuri (get_str "$ref" m) base = POk nref -> is_circular s nref parents = (s1, false) ->
  resolve E docs cwd live s1 rroot (get_str "$ref" m) base "Schema" = Failed sf -> dfail sf = true ->
  expand_schema_ref E docs cwd OP ctx_base live follow s parents rroot base m = Done (set_dfail sf false, JObj m).
Proof.
  intros Hc Hn Hci Hr Hd. unfold expand_schema_ref. rewrite Hn. cbn [pbind]. rewrite Hci, Hr, Hc, Hd. reflexivity.
Qed.

(* an error of the walk always comes from below: a failed follow, a failed resolution, or a URL / id
   that cannot be normalised — the traversal itself never produces one *)
Definition failure_origin (parents : list string) (sf : st) : Prop :=
  (exists s' ps rr b t, follow s' ps rr b t = Failed sf)
  \/ (exists s' rr ref b, resolve E docs cwd live s' rr ref b "Schema" = Failed sf /\ o_cont OP = false)
  \/ (exists s' m b, expand_schema_ref E docs cwd OP ctx_base live follow s' parents (None) b m = Failed sf -> True).

Theorem esr_failed_origin s parents rroot base m sf :
  expand_schema_ref E docs cwd OP ctx_base live follow s parents rroot base m = Failed sf ->
  (exists s' ps rr b t, follow s' ps rr b t = Failed sf)
  \/ (exists s1, resolve E docs cwd live s1 rroot (get_str "$ref" m) base "Schema" = Failed sf /\ o_cont OP = false)
  \/ nuri (get_str "$ref" m) base = PErr
  \/ (exists s1 nref, render_kept OP ctx_base s1 nref = PErr)
  \/ (exists s2, transitive s2 rroot base (get_str "$ref" m) = Failed sf).
Proof.
  unfold expand_schema_ref. intros H.
  destruct (nuri (get_str "$ref" m) base) as [nref| |] eqn:En; cbn [pbind] in H; [|right; right; left; reflexivity|discriminate].
  destruct (is_circular s nref parents) as [s1 circ] eqn:Ec. destruct circ.
  - destruct (render_kept OP ctx_base s1 nref) eqn:Er; cbn [pbind] in H; try discriminate.
    right. right. right. left. exists s1, nref. exact Er.
  - destruct (resolve E docs cwd live s1 rroot (get_str "$ref" m) base "Schema") as [[s2 t]|sf1| |] eqn:Er; try discriminate.
    + unfold ebind in H. destruct (transitive s2 rroot base (get_str "$ref" m)) as [rc|sf2| |] eqn:Et; try discriminate.
      * left. exists s2, (parents ++ [nref])%list, (fst rc), (strip_frag nref), t. exact H.
      * inversion H; subst. right. right. right. right. exists s2. exact Et.
    + destruct (o_cont OP) eqn:Hc; [destruct (dfail sf1); discriminate|].
      inversion H; subst. right. left. exists s1. split; [exact Er|reflexivity].
Qed.
End ErrorSemantics.

(* ---------- skip-schemas mode (C09) ---------- *)
Section SkipMode.
Variable E : env.
Variable docs : list (string * json).
Variable cwd : string.
Variable OP : opts.
Variable ctx_base : string.
Variable live : option (string * json).
Variable follow : st -> list string -> option string -> string -> json -> eres (st * json).
Hypothesis Hskip : o_skip OP = true.

(* a schema holding a `$ref` keeps it: only its text is rebased, nothing is resolved or followed *)
Theorem skip_keeps_ref s parents rroot base m s' j' :
  match assoc "$ref" m with Some (JStr r) => negb (String.eqb r "") | _ => false end = true ->
  get_str "id" m = "" ->
  walk E docs cwd OP ctx_base live follow (JObj m) s parents rroot base = Done (s', j') ->
  s' = s /\ exists nref txt, nuri (get_str "$ref" m) base = POk nref /\ render_rebased ctx_base s nref = POk txt
                             /\ j' = JObj (set_member "$ref" (JStr txt) m).
Proof.
  intros Href Hid H. cbn [walk] in H.
  assert (Hr1 : match assoc "$ref" m with Some (JStr r) => String.eqb r "" | _ => false end = false).
  { destruct (assoc "$ref" m) as [[| | |r| |]|]; try discriminate; try reflexivity. apply negb_true_iff in Href. exact Href. }
  rewrite Hr1 in H. unfold apply_id in H. rewrite Hid in H. cbn in H.
  assert (Hh : has_ref m = true).
  { unfold has_ref. destruct (assoc "$ref" m) as [[| | |r| |]|]; try discriminate; reflexivity. }
  rewrite Hh, Hskip in H. cbn [negb] in H.
  destruct (nuri (get_str "$ref" m) base) as [nref| |] eqn:En; cbn [pbind] in H; try discriminate.
  destruct (render_rebased ctx_base s nref) as [txt| |] eqn:Er; cbn [pbind] in H; try discriminate.
  inversion H; subst. split; [reflexivity|]. exists nref, txt. repeat split; assumption.
Qed.

(* the `definitions` section is not visited at all: it comes out exactly as it went in *)
Lemma assoc_set_member_neq k k' v (m : list (string * json)) : k <> k' -> assoc k' (set_member k v m) = assoc k' m.
Proof.
  intros Hne. induction m as [|[a w] r IH]; cbn [set_member assoc].
  - destruct (String.eqb k' k) eqn:Ek; [apply String.eqb_eq in Ek; congruence|reflexivity].
  - destruct (String.eqb k a) eqn:Eka; cbn [assoc].
    + apply String.eqb_eq in Eka. subst a.
      destruct (String.eqb k' k) eqn:Ek; [apply String.eqb_eq in Ek; congruence|reflexivity].
    + rewrite IH. reflexivity.
Qed.

Lemma section_step_keeps k f acc k' : k <> k' ->
  match section_step k f acc, acc with
  | Done (_, m'), Done (_, m) => assoc k' m' = assoc k' m
  | _, _ => True
  end.
Proof.
  intros Hne. unfold section_step. destruct acc as [[s m]|sf| |]; cbn [ebind]; try exact I.
  cbn [snd fst]. destruct (assoc k m) as [[| | | | |vm]|]; try reflexivity.
  match goal with |- match ebind ?X _ with _ => _ end => destruct X as [[s1 vm']|sf| |] end; cbn [ebind]; try exact I.
  cbn [fst snd]. apply assoc_set_member_neq. exact Hne.
Qed.

Lemma section_step_done k f acc x : section_step k f acc = Done x -> exists y, acc = Done y.
Proof. unfold section_step. destruct acc as [y|sf| |]; cbn [ebind]; intros H; try discriminate. exists y. reflexivity. Qed.

Lemma section_step_keeps' k f acc k' s' m' : k <> k' -> section_step k f acc = Done (s', m') ->
  exists s m, acc = Done (s, m) /\ assoc k' m' = assoc k' m.
Proof.
  intros Hne H. destruct (section_step_done _ _ _ _ H) as [[s m] ->].
  exists s, m. split; [reflexivity|]. pose proof (section_step_keeps k f (Done (s, m)) k' Hne) as K. rewrite H in K. exact K.
Qed.

Theorem skip_leaves_definitions fuel root_url m s s' m' :
  expand_spec_with E docs cwd OP ctx_base live follow fuel root_url (JObj m) s = Done (s', JObj m') ->
  assoc "definitions" m' = assoc "definitions" m.
Proof.
  unfold expand_spec_with. rewrite Hskip. intros H.
  apply ebind_done in H. destruct H as [[s4 m4] [H4 H]]. inversion H; subst s' m'. clear H.
  apply section_step_keeps' with (k' := "definitions") in H4; [|discriminate]. destruct H4 as [s3 [m3 [H3 E4]]].
  apply section_step_keeps' with (k' := "definitions") in H3; [|discriminate]. destruct H3 as [s2 [m2 [H2 E3]]].
  apply section_step_keeps' with (k' := "definitions") in H2; [|discriminate]. destruct H2 as [s1 [m1 [H1 E2]]].
  inversion H1; subst. rewrite E4, E3, E2. reflexivity.
Qed.
End SkipMode.

(* ---------- which references are kept (C03) ---------- *)
Lemma is_circular_true s nref parents s1 : is_circular s nref parents = (s1, true) ->
  (mem_str nref (memo s) = true /\ s1 = s) \/ (mem_str nref parents = true /\ s1 = set_memo s (nref :: memo s)).
Proof.
  unfold is_circular. destruct (mem_str nref (memo s)) eqn:E1; [intros H; inversion H; left; auto|].
  destruct (mem_str nref parents) eqn:E2; intros H; inversion H. right. auto.
Qed.

(* the memo only ever receives references that were on the parent stack at that moment *)
Lemma is_circular_memo s nref parents s1 b : is_circular s nref parents = (s1, b) ->
  forall x, In x (memo s1) -> In x (memo s) \/ (x = nref /\ mem_str nref parents = true).
Proof.
  unfold is_circular. destruct (mem_str nref (memo s)); [intros H; inversion H; subst; auto|].
  destruct (mem_str nref parents) eqn:E; intros H; inversion H; subst; [|auto].
  intros x [<-|Hx]; [right; auto|left; exact Hx].
Qed.

Section Kept.
Variable E : env.
Variable docs : list (string * json).
Variable cwd : string.
Variable OP : opts.
Variable ctx_base : string.
Variable live : option (string * json).
Variable follow : st -> list string -> option string -> string -> json -> eres (st * json).

(* a reference is kept by expandSchemaRef exactly when its canonical form is on the parent stack or in the memo of
   circular references; it is then written as [render_kept] says, all other members of the holder unchanged *)
Theorem esr_kept s parents rroot base m nref s1 :
  nuri (get_str "$ref" m) base = POk nref -> is_circular s nref parents = (s1, true) ->
  expand_schema_ref E docs cwd OP ctx_base live follow s parents rroot base m
  = pbind s1 (render_kept OP ctx_base s1 nref) (fun txt => Done (s1, JObj (set_member "$ref" (JStr txt) m))).
Proof. intros Hn Hc. unfold expand_schema_ref. rewrite Hn. cbn [pbind]. rewrite Hc. reflexivity. Qed.

(* with AbsoluteCircularRef the kept reference is the absolute canonical URL itself *)
Theorem render_kept_absolute s nref : o_abs OP = true -> render_kept OP ctx_base s nref = POk nref.
Proof. intros H. unfold render_kept. rewrite H. reflexivity. Qed.

(* a reference that is not circular is never kept by a successful strict expansion: the result is what following its
   target gives *)
Theorem esr_followed s parents rroot base m nref s1 s2 t rc :
  nuri (get_str "$ref" m) base = POk nref -> is_circular s nref parents = (s1, false) ->
  resolve E docs cwd live s1 rroot (get_str "$ref" m) base "Schema" = Done (s2, t) ->
  transitive s2 rroot base (get_str "$ref" m) = Done rc ->
  expand_schema_ref E docs cwd OP ctx_base live follow s parents rroot base m
  = follow s2 (parents ++ [nref])%list (fst rc) (strip_frag nref) t.
Proof. intros Hn Hc Hr Ht. unfold expand_schema_ref. rewrite Hn. cbn [pbind]. rewrite Hc, Hr. cbn [ebind]. rewrite Ht. reflexivity. Qed.
End Kept.
