(* Meaning preservation for the WHOLE of ExpandSpec (C02, specification level).

   ExpandSim.v proves it for a schema, ExpandElem.v for one parameter / response whose chain is followed to its end,
   ExpandChain.v that chains of a well-formed graph are followed to their end.  This file composes them over lists and maps
   of parameters and responses, operations, path items and the four sections of a specification, threading the state
   invariant (cache within the store, root id, memo within the cycles of the schema graph) from call to call:

   [expand_spec_sim]: when ExpandSpec returns on a checked graph, the document it returns is the input document in
   which every definition is replaced by a bisimilar schema read at the root location, every shared parameter and
   response by the end of its `$ref` chain with its schema replaced by a bisimilar one, every path item by the end of its
   chain with its parameters, and the parameters and responses of its operations, replaced in the same way - and nothing
   else is changed. *)
From Coq Require Import List String Ascii Bool Arith Lia.
From Spec Require Import Base.Json Base.JsonFacts Base.Url Base.UrlFacts Codec.Types Codec.Codec
  Expand.Expand Expand.ExpandFacts Expand.ExpandSim Expand.ExpandSimCheck Expand.ExpandCycle Expand.ExpandElem Expand.ExpandTermG Expand.ExpandComplete Expand.ExpandChain.
Import ListNotations.
Local Open Scope string_scope.

(* a fold that ends in Done started in Done *)
Lemma fold_left_done {A B} (f : eres B -> A -> eres B) : (forall acc x b, f acc x = Done b -> exists a, acc = Done a) ->
  forall l acc b, fold_left f l acc = Done b -> exists a, acc = Done a.
Proof.
  intros Hf. induction l as [|x r IH]; intros acc b H; cbn [fold_left] in H; [exists b; exact H|].
  destruct (IH _ _ H) as [a Ha]. exact (Hf _ _ _ Ha).
Qed.

(* ---------- SkipSchemas: the schema walk leaves the state as it was ---------- *)
Section SkipState.
Variable E : env.
Variable docs : list (string * json).
Variable cwd : string.
Variable OP : opts.
Variable ctx_base : string.
Variable live : option (string * json).
Hypothesis Hskip : o_skip OP = true.
Variable G : string -> json -> Prop.
Hypothesis G_child : forall b m k v x, G b (JObj m) -> has_ref m = false -> In (k, v) m -> child_of x v -> G b x.
Hypothesis G_plain : forall b m, G b (JObj m) -> get_str "id" m = "" /\ assoc "$ref" m <> Some (JStr "").
Variable follow : st -> list string -> option string -> string -> json -> eres (st * json).

Theorem walk_skip_state : forall j s parents rroot base s' j',
  G base j -> walk E docs cwd OP ctx_base live follow j s parents rroot base = Done (s', j') -> s' = s.
Proof.
  intros j. remember (jsize j) as n eqn:En. revert j En.
  induction n as [n IH] using lt_wf_ind. intros j En s parents rroot base s' j' Hg. subst n.
  destruct j as [| | | |l|m]; try (intros H; inversion H; reflexivity).
  cbn [walk]. destruct (G_plain _ _ Hg) as [Hid Hne].
  destruct (match assoc "$ref" m with Some (JStr r) => String.eqb r "" | _ => false end) eqn:Eemp.
  { intros H. inversion H. reflexivity. }
  unfold apply_id. rewrite Hid. cbn [String.eqb].
  destruct (has_ref m) eqn:Hr.
  - rewrite Hskip. cbn [negb].
    destruct (nuri (get_str "$ref" m) base) as [nref| |]; cbn [pbind]; try discriminate.
    destruct (render_rebased ctx_base s nref) as [txt| |]; cbn [pbind]; try discriminate.
    intros H. inversion H. reflexivity.
  - intros H. apply ebind_done in H. destruct H as [[s1 m1] [Hf H]]. cbn [fst snd] in H. inversion H; subst.
    destruct (fold_members_rel (fun x s0 => walk E docs cwd OP ctx_base live follow x s0 parents rroot base) (fun s0 => s0 = s) (fun _ _ => True)
                (fun x => jsize x < jsize (JObj m) /\ G base x)
                (fun x s0 s0' x' Hd Hs0 Hw => conj (eq_trans (IH (jsize x) (proj1 Hd) x eq_refl s0 parents rroot base s0' x' (proj2 Hd) Hw) Hs0) I)
                m s [] s' m1) as [Hs' _]; [| reflexivity | exact Hf | exact Hs'].
    intros k v x Hin Hc. split.
    + eapply Nat.le_lt_trans; [apply child_of_size; exact Hc|eapply jsize_value; exact Hin].
    + eapply G_child; eassumption.
Qed.
End SkipState.

Section SpecSim.
Variable E : env.
Variable docs : list (string * json).
Variable cwd : string.
Variable OP : opts.
Variable ctx_base : string.
Variable live : option (string * json).
Variable rid : string.
Hypothesis live_served : forall lu ld, live = Some (lu, ld) -> doc_at docs cwd lu = Some ld.
Hypothesis strict : o_cont OP = false.

(* the state invariant threaded through the run, and what following a schema reference guarantees *)
Variable St : st -> Prop.
Hypothesis St_Inv : forall s, St s -> Inv docs rid s.
Variable MD : string -> Prop.
Hypothesis St_memo : forall s x, St s -> In x (memo s) -> MD x.
Hypothesis St_same_memo : forall s s', St s -> Inv docs rid s' -> memo s' = memo s -> St s'.

Variable G : string -> json -> Prop.
Variable follow : st -> list string -> option string -> string -> json -> eres (st * json).
(* what is known of an expanded schema: [Q b t t'] for the schema t found at base b and its expansion t' (instantiated below
   with "t' read at the root location is bisimilar to t, and every `$ref` left in t' is the rendering of a reference on a
   cycle") *)
Variable Q : string -> json -> json -> Prop.
Hypothesis Hfollow : forall s rr b t s' t', G b t -> St s -> Coh cwd rr b -> follow s [] rr b t = Done (s', t') ->
  St s' /\ Q b t t'.

(* the graph of located elements (ExpandElem.v, ExpandChain.v) *)
Variable GE : string -> string -> list (string * json) -> Prop.
Hypothesis GE_holder : forall kind b m, GE kind b m -> get_str "$ref" m <> "" -> remove_key "$ref" m = [].
Hypothesis GE_target : forall kind b m b1 tm, GE kind b m -> get_str "$ref" m <> "" ->
  sem_target_k E docs cwd kind (get_str "$ref" m) b = Some (b1, JObj tm) -> GE kind b1 tm /\ merge_over tm [] = tm.
Hypothesis GE_same : forall kind b m nref, GE kind b m -> get_str "$ref" m <> "" -> nuri (get_str "$ref" m) b = POk nref ->
  keeps_resolver (get_str "$ref" m) b nref -> nbase cwd (strip_frag nref) = nbase cwd (strip_frag b).
Hypothesis GE_schema : forall kind b m sm, GE kind b m -> get_str "$ref" m = "" ->
  assoc "schema" (remove_key "$ref" m) = Some (JObj sm) -> G b (JObj sm).
Hypothesis fresh : forall x, chain_ref GE x -> ~ MD x.
Variable rk : string -> nat.
Hypothesis GE_rank : forall kind b m nref b1 tm nref1, GE kind b m -> get_str "$ref" m <> "" ->
  nuri (get_str "$ref" m) b = POk nref -> sem_target_k E docs cwd kind (get_str "$ref" m) b = Some (b1, JObj tm) ->
  get_str "$ref" tm <> "" -> nuri (get_str "$ref" tm) b1 = POk nref1 -> rk nref1 < rk nref.

Variable fuel : nat.

(* ---------- one chain ---------- *)
Lemma deref_top kind s rroot base m s1 m1 rr1 b1 :
  GE kind base m -> St s -> Coh cwd rroot base ->
  deref E docs cwd OP live fuel s [] rroot base kind m = Done (s1, m1, rr1, b1) ->
  St s1 /\ Coh cwd rr1 b1 /\ get_str "$ref" m1 = "" /\ chases_k E docs cwd kind base m b1 m1 /\ GE kind b1 m1.
Proof.
  intros Hg Hs Hcoh H.
  assert (Hab : above rk [] base m) by (intros p nref []).
  destruct (deref_ends E docs cwd OP live rid live_served strict GE GE_holder GE_target GE_same MD fresh rk GE_rank
              kind fuel s [] rroot base m s1 m1 rr1 b1 Hg (St_Inv _ Hs) Hcoh (fun x Hx => St_memo _ _ Hs Hx) Hab H) as [Hend Hmemo].
  destruct (deref_sem E docs cwd OP live rid live_served strict GE GE_holder GE_target GE_same
              kind fuel s [] rroot base m s1 m1 rr1 b1 Hg (St_Inv _ Hs) Hcoh H Hend) as [Hs1 [Hc1 [Hch Hg1]]].
  split; [exact (St_same_memo _ _ Hs Hs1 Hmemo)|]. split; [exact Hc1|]. split; [exact Hend|]. split; [exact Hch|exact Hg1].
Qed.

(* ---------- a parameter or a response ---------- *)
Definition PorIn (kind b : string) (j : json) : Prop := match j with JObj m => GE kind b m | _ => True end.

(* what an expanded parameter / response is: the end of its chain, its schema (if any) replaced by a bisimilar one read
   at the root location *)
Definition por_out (b : string) (m mo : list (string * json)) : Prop :=
  match assoc "schema" m with
  | Some (JObj sm) => exists v', mo = set_member "schema" v' m /\ Q b (JObj sm) v'
  | _ => mo = m
  end.
Definition por_rel (kind base : string) (j j' : json) : Prop :=
  match j with
  | JObj m => exists b1 m1 mo, chases_k E docs cwd kind base m b1 m1 /\ j' = JObj mo /\ por_out b1 (remove_key "$ref" m1) mo
  | _ => j' = j
  end.

Lemma por_step kind s rroot base j s' j' :
  PorIn kind base j -> St s -> Coh cwd rroot base ->
  expand_por E docs cwd OP live follow fuel s rroot base kind j = Done (s', j') ->
  St s' /\ por_rel kind base j j'.
Proof.
  intros Hin Hs Hcoh H. destruct j as [| | | | |m]; try (inversion H; subst; split; [exact Hs|reflexivity]).
  cbn [PorIn] in Hin. unfold expand_por in H. apply ebind_done in H. destruct H as [[[[s1 m1] rr1] b1] [Hd H]].
  destruct (deref_top _ _ _ _ _ _ _ _ _ Hin Hs Hcoh Hd) as [Hs1 [Hc1 [Hend [Hch Hg1]]]].
  cbn [por_rel].
  destruct (assoc "schema" (remove_key "$ref" m1)) as [[| | | | |sm]|] eqn:Esch;
    try (inversion H; subst; split; [exact Hs1|]; exists b1, m1, (remove_key "$ref" m1); split; [exact Hch|split; [reflexivity|]];
         unfold por_out; rewrite Esch; reflexivity).
  apply ebind_done in H. destruct H as [[s3 v'] [Hf H]]. cbn [fst snd] in H. inversion H; subst.
  destruct (Hfollow _ _ _ _ _ _ (GE_schema _ _ _ _ Hg1 Hend Esch) Hs1 Hc1 Hf) as [Hs3 Hb].
  split; [exact Hs3|]. exists b1, m1, (set_member "schema" v' (remove_key "$ref" m1)). split; [exact Hch|split; [reflexivity|]].
  unfold por_out. rewrite Esch. exists v'. split; [reflexivity|exact Hb].
Qed.

(* ---------- lists and maps of parameters / responses ---------- *)
Lemma fold_por_sim kind rroot base : forall l s out s' l',
  Forall (PorIn kind base) l -> St s -> Coh cwd rroot base ->
  fold_por E docs cwd OP live follow fuel l s rroot base kind out = Done (s', l') ->
  St s' /\ exists l2, l' = (rev out ++ l2)%list /\ Forall2 (por_rel kind base) l l2.
Proof.
  induction l as [|x r IH]; intros s out s' l' Hall Hs Hcoh H; cbn [fold_por] in H.
  - inversion H; subst. split; [exact Hs|]. exists []. split; [rewrite app_nil_r; reflexivity|constructor].
  - apply ebind_done in H. destruct H as [[s1 x'] [Hx H]]. cbn [fst snd] in H.
    inversion Hall as [|? ? Hx0 Hr0]; subst.
    destruct (por_step _ _ _ _ _ _ _ Hx0 Hs Hcoh Hx) as [Hs1 Hrel].
    destruct (IH _ _ _ _ Hr0 Hs1 Hcoh H) as [Hs' [l2 [-> Hl2]]].
    split; [exact Hs'|]. exists (x' :: l2). split; [cbn [rev]; rewrite <- app_assoc; reflexivity|constructor; assumption].
Qed.

Definition entry_rel (kind base : string) (kv kv' : string * json) : Prop :=
  fst kv' = fst kv /\ (if has_x_prefix_ci (fst kv) then snd kv' = snd kv else por_rel kind base (snd kv) (snd kv')).
Definition EntryIn (kind base : string) (kv : string * json) : Prop :=
  has_x_prefix_ci (fst kv) = false -> PorIn kind base (snd kv).

Lemma fold_por_map_sim kind rroot base : forall l s out s' l',
  Forall (EntryIn kind base) l -> St s -> Coh cwd rroot base ->
  fold_por_map E docs cwd OP live follow fuel l s rroot base kind out = Done (s', l') ->
  St s' /\ exists l2, l' = (rev out ++ l2)%list /\ Forall2 (entry_rel kind base) l l2.
Proof.
  induction l as [|[k x] r IH]; intros s out s' l' Hall Hs Hcoh H; cbn [fold_por_map] in H.
  - inversion H; subst. split; [exact Hs|]. exists []. split; [rewrite app_nil_r; reflexivity|constructor].
  - inversion Hall as [|? ? Hx0 Hr0]; subst. unfold EntryIn in Hx0. cbn [fst snd] in Hx0.
    destruct (has_x_prefix_ci k) eqn:Ex.
    + destruct (IH _ _ _ _ Hr0 Hs Hcoh H) as [Hs' [l2 [-> Hl2]]].
      split; [exact Hs'|]. exists ((k, x) :: l2). split; [cbn [rev]; rewrite <- app_assoc; reflexivity|].
      constructor; [|exact Hl2]. split; [reflexivity|]. cbn [fst snd]. rewrite Ex. reflexivity.
    + apply ebind_done in H. destruct H as [[s1 x'] [Hx H]]. cbn [fst snd] in H.
      destruct (por_step _ _ _ _ _ _ _ (Hx0 eq_refl) Hs Hcoh Hx) as [Hs1 Hrel].
      destruct (IH _ _ _ _ Hr0 Hs1 Hcoh H) as [Hs' [l2 [-> Hl2]]].
      split; [exact Hs'|]. exists ((k, x') :: l2). split; [cbn [rev]; rewrite <- app_assoc; reflexivity|].
      constructor; [|exact Hl2]. split; [reflexivity|]. cbn [fst snd]. rewrite Ex. exact Hrel.
Qed.

(* ---------- an operation ---------- *)
Definition params_rel (base : string) (m ma : list (string * json)) : Prop :=
  match assoc "parameters" m with
  | Some (JArr ps) => exists ps', ma = set_member "parameters" (JArr ps') m /\ Forall2 (por_rel "Parameter" base) ps ps'
  | _ => ma = m
  end.
Definition resps_rel (base : string) (ma m' : list (string * json)) : Prop :=
  match assoc "responses" ma with
  | Some (JObj rs) => exists rs', m' = set_member "responses" (JObj rs') ma /\ Forall2 (entry_rel "Response" base) rs rs'
  | _ => m' = ma
  end.
Definition op_rel (base : string) (j j' : json) : Prop :=
  match j with
  | JObj m => exists ma m', params_rel base m ma /\ resps_rel base ma m' /\ j' = JObj m'
  | _ => j' = j
  end.
Definition ParamsIn (base : string) (m : list (string * json)) : Prop :=
  forall ps, assoc "parameters" m = Some (JArr ps) -> Forall (PorIn "Parameter" base) ps.
Definition OpIn (base : string) (j : json) : Prop :=
  match j with
  | JObj m => ParamsIn base m /\ forall rs, assoc "responses" m = Some (JObj rs) -> Forall (EntryIn "Response" base) rs
  | _ => True
  end.

Lemma params_step rroot base m s s' ma :
  ParamsIn base m -> St s -> Coh cwd rroot base ->
  match assoc "parameters" m with
  | Some (JArr ps) => ebind (fold_por E docs cwd OP live follow fuel ps s rroot base "Parameter" [])
                            (fun sp => Done (fst sp, set_member "parameters" (JArr (snd sp)) m))
  | _ => Done (s, m)
  end = Done (s', ma) ->
  St s' /\ params_rel base m ma.
Proof.
  intros Hin Hs Hcoh H. unfold params_rel.
  destruct (assoc "parameters" m) as [[| | | |ps|]|] eqn:Ep; try (inversion H; subst; split; [exact Hs|reflexivity]).
  apply ebind_done in H. destruct H as [[s1 ps'] [Hf H]]. cbn [fst snd] in H. inversion H; subst.
  destruct (fold_por_sim _ _ _ _ _ _ _ _ (Hin ps Ep) Hs Hcoh Hf) as [Hs1 [l2 [-> Hl2]]].
  split; [exact Hs1|]. exists l2. split; [reflexivity|exact Hl2].
Qed.

Lemma op_step rroot base j s s' j' :
  OpIn base j -> St s -> Coh cwd rroot base ->
  expand_operation E docs cwd OP live follow fuel s rroot base j = Done (s', j') ->
  St s' /\ op_rel base j j'.
Proof.
  intros Hin Hs Hcoh H. destruct j as [| | | | |m]; try (inversion H; subst; split; [exact Hs|reflexivity]).
  destruct Hin as [Hpin Hrin]. unfold expand_operation in H. apply ebind_done in H. destruct H as [[s1 ma] [H1 H]].
  destruct (params_step _ _ _ _ _ _ Hpin Hs Hcoh H1) as [Hs1 Hprel]. cbn [fst snd] in H.
  assert (Hresp : assoc "responses" ma = assoc "responses" m).
  { unfold params_rel in Hprel. destruct (assoc "parameters" m) as [[| | | |ps|]|]; try (subst; reflexivity).
    destruct Hprel as [ps' [-> _]]. apply assoc_set_member_neq. discriminate. }
  cbn [op_rel]. unfold resps_rel. rewrite Hresp in H.
  destruct (assoc "responses" m) as [[| | | | |rs]|] eqn:Er;
    try (inversion H; subst; split; [exact Hs1|]; exists ma, ma; split; [exact Hprel|split; [rewrite Hresp; reflexivity|reflexivity]]).
  apply ebind_done in H. destruct H as [[s2 rs'] [Hf H]]. cbn [fst snd] in H. inversion H; subst.
  destruct (fold_por_map_sim _ _ _ _ _ _ _ _ (Hrin rs eq_refl) Hs1 Hcoh Hf) as [Hs2 [l2 [-> Hl2]]].
  split; [exact Hs2|]. exists ma, (set_member "responses" (JObj l2) ma). split; [exact Hprel|]. split; [|reflexivity].
  rewrite Hresp. exists l2. split; [reflexivity|exact Hl2].
Qed.

(* ---------- a path item ---------- *)
Fixpoint ops_rel (names : list string) (base : string) (m m' : list (string * json)) : Prop :=
  match names with
  | [] => m' = m
  | op :: r => exists mi, match assoc op m with
                          | Some o => exists o', op_rel base o o' /\ mi = set_member op o' m
                          | None => mi = m
                          end /\ ops_rel r base mi m'
  end.
(* what an expanded path item is: the end of its chain, its parameters and then its operations replaced one by one *)
Definition pi_rel (base : string) (j j' : json) : Prop :=
  match j with
  | JObj m => exists b1 m1 ma m', chases_k E docs cwd "PathItem" base m b1 m1 /\
                params_rel b1 (remove_key "$ref" m1) ma /\ ops_rel op_names b1 ma m' /\ j' = JObj m'
  | _ => j' = j
  end.
Definition OpsIn (names : list string) (base : string) (m : list (string * json)) : Prop :=
  forall op o, In op names -> assoc op m = Some o -> OpIn base o.
Hypothesis GE_pi : forall b m, GE "PathItem" b m -> get_str "$ref" m = "" ->
  ParamsIn b (remove_key "$ref" m) /\ OpsIn op_names b (remove_key "$ref" m).

Lemma ops_fold_sim rroot base : forall names s m s' m',
  NoDup names -> OpsIn names base m -> St s -> Coh cwd rroot base ->
  fold_left (fun acc op =>
               ebind acc (fun sm =>
                 match assoc op (snd sm) with
                 | Some o => ebind (expand_operation E docs cwd OP live follow fuel (fst sm) rroot base o)
                                   (fun so => Done (fst so, set_member op (snd so) (snd sm)))
                 | None => Done sm
                 end)) names (Done (s, m)) = Done (s', m') ->
  St s' /\ ops_rel names base m m'.
Proof.
  induction names as [|op r IH]; intros s m s' m' Hnd Hin Hs Hcoh H; cbn [fold_left] in H.
  - inversion H; subst. split; [exact Hs|reflexivity].
  - inversion Hnd as [|? ? Hnotin Hnd']; subst.
    destruct (fold_left_done _ (fun acc x b Hb => match ebind_done _ _ _ Hb with ex_intro _ a (conj Ha _) => ex_intro _ a Ha end) _ _ _ H) as [[s1 mi] Hhead].
    rewrite Hhead in H. cbn [ebind fst snd] in Hhead.
    assert (Hrest : forall o', mi = set_member op o' m \/ mi = m -> OpsIn r base mi).
    { intros o' Hmi op2 o2 Hop2 Ha. apply (Hin op2 o2); [right; exact Hop2|].
      destruct Hmi as [->| ->]; [|exact Ha]. rewrite assoc_set_member_neq in Ha; [exact Ha|]. intros ->. exact (Hnotin Hop2). }
    cbn [ops_rel]. destruct (assoc op m) as [o|] eqn:Eo.
    + apply ebind_done in Hhead. destruct Hhead as [[s2 o'] [Hop Hd]]. cbn [fst snd] in Hd. inversion Hd; subst.
      destruct (op_step _ _ _ _ _ _ (Hin op o (or_introl eq_refl) Eo) Hs Hcoh Hop) as [Hs2 Hrel].
      destruct (IH _ _ _ _ Hnd' (Hrest o' (or_introl eq_refl)) Hs2 Hcoh H) as [Hs' Hr].
      split; [exact Hs'|]. exists (set_member op o' m). split; [exists o'; split; [exact Hrel|reflexivity]|exact Hr].
    + inversion Hhead; subst.
      destruct (IH _ _ _ _ Hnd' (Hrest JNull (or_intror eq_refl)) Hs Hcoh H) as [Hs' Hr].
      split; [exact Hs'|]. exists mi. split; [reflexivity|exact Hr].
Qed.

Lemma op_names_nodup : NoDup op_names.
Proof. unfold op_names. repeat (constructor; [cbn; intros H; repeat (destruct H as [H|H]; [discriminate H|]); exact H|]). constructor. Qed.
Lemma op_name_not_parameters op : In op op_names -> op <> "parameters".
Proof. unfold op_names. cbn. intros H. repeat (destruct H as [<-|H]; [discriminate|]). destruct H. Qed.

Lemma pi_step s rroot base j s' j' :
  PorIn "PathItem" base j -> St s -> Coh cwd rroot base ->
  expand_path_item E docs cwd OP live follow fuel s rroot base j = Done (s', j') ->
  St s' /\ pi_rel base j j'.
Proof.
  intros Hin Hs Hcoh H. destruct j as [| | | | |m]; try (inversion H; subst; split; [exact Hs|reflexivity]).
  cbn [PorIn] in Hin. unfold expand_path_item in H. apply ebind_done in H. destruct H as [[[[s1 m1] rr1] b1] [Hd H]].
  destruct (deref_top _ _ _ _ _ _ _ _ _ Hin Hs Hcoh Hd) as [Hs1 [Hc1 [Hend [Hch Hg1]]]].
  destruct (GE_pi _ _ Hg1 Hend) as [Hpin Hoin].
  apply ebind_done in H. destruct H as [[s3 m3] [Hops H]]. cbn [fst snd] in H. inversion H; subst.
  destruct (fold_left_done _ (fun acc x b Hb => match ebind_done _ _ _ Hb with ex_intro _ a (conj Ha _) => ex_intro _ a Ha end) _ _ _ Hops) as [[s2 ma] Hstep1].
  rewrite Hstep1 in Hops.
  destruct (params_step _ _ _ _ _ _ Hpin Hs1 Hc1 Hstep1) as [Hs2 Hprel].
  assert (Hoin' : OpsIn op_names b1 ma).
  { intros op o Hop Ha. apply (Hoin op o Hop). unfold params_rel in Hprel.
    destruct (assoc "parameters" (remove_key "$ref" m1)) as [[| | | |ps|]|]; try (subst; exact Ha).
    destruct Hprel as [ps' [-> _]]. rewrite assoc_set_member_neq in Ha; [exact Ha|]. intros Heq. exact (op_name_not_parameters op Hop (eq_sym Heq)). }
  destruct (ops_fold_sim _ _ _ _ _ _ _ op_names_nodup Hoin' Hs2 Hc1 Hops) as [Hs3 Hor].
  split; [exact Hs3|]. cbn [pi_rel]. exists b1, m1, ma, m3. split; [exact Hch|split; [exact Hprel|split; [exact Hor|reflexivity]]].
Qed.

(* ---------- a section of the specification ---------- *)
Definition sec_rel (k : string) (R : string -> json -> json -> Prop) (m m' : list (string * json)) : Prop :=
  match assoc k m with
  | Some (JObj vm) => exists vm', m' = set_member k (JObj vm') m /\
                        Forall2 (fun kv kv' => fst kv' = fst kv /\ R (fst kv) (snd kv) (snd kv')) vm vm'
  | _ => m' = m
  end.
Lemma sec_rel_other k R m m' k' : sec_rel k R m m' -> k <> k' -> assoc k' m' = assoc k' m.
Proof.
  unfold sec_rel. intros H Hne. destruct (assoc k m) as [[| | | | |vm]|]; try (subst; reflexivity).
  destruct H as [vm' [-> _]]. apply assoc_set_member_neq. exact Hne.
Qed.

Section OneSection.
Variable f : st -> string -> json -> eres (st * json).
Variable R : string -> json -> json -> Prop.
Variable P : string -> json -> Prop.
Hypothesis Hf : forall s key v s' v', P key v -> St s -> f s key v = Done (s', v') -> St s' /\ R key v v'.

Lemma sec_fold : forall vm s acc s' out,
  Forall (fun kv => P (fst kv) (snd kv)) vm -> St s ->
  fold_left (fun acc2 dv => ebind acc2 (fun so2 =>
               ebind (f (fst so2) (fst dv) (snd dv)) (fun sv => Done (fst sv, (snd so2 ++ [(fst dv, snd sv)])%list))))
            vm (Done (s, acc)) = Done (s', out) ->
  St s' /\ exists vm', out = (acc ++ vm')%list /\
            Forall2 (fun kv kv' => fst kv' = fst kv /\ R (fst kv) (snd kv) (snd kv')) vm vm'.
Proof.
  induction vm as [|[k v] r IH]; intros s acc s' out Hall Hs H; cbn [fold_left] in H.
  - inversion H; subst. split; [exact Hs|]. exists []. split; [rewrite app_nil_r; reflexivity|constructor].
  - inversion Hall as [|? ? Hx Hr]; subst. cbn [fst snd] in Hx.
    destruct (fold_left_done _ (fun acc x b Hb => match ebind_done _ _ _ Hb with ex_intro _ a (conj Ha _) => ex_intro _ a Ha end) _ _ _ H) as [[s1 acc1] Hhead].
    rewrite Hhead in H. cbn [ebind fst snd] in Hhead.
    apply ebind_done in Hhead. destruct Hhead as [[s2 v'] [Hfv Hd]]. cbn [fst snd] in Hd. inversion Hd; subst.
    destruct (Hf _ _ _ _ _ Hx Hs Hfv) as [Hs2 Hrel].
    destruct (IH _ _ _ _ Hr Hs2 H) as [Hs' [vm' [-> Hvm']]].
    split; [exact Hs'|]. exists ((k, v') :: vm'). split; [rewrite <- app_assoc; reflexivity|].
    constructor; [split; [reflexivity|exact Hrel]|exact Hvm'].
Qed.

Lemma section_sim k s m s' m' :
  (forall vm, assoc k m = Some (JObj vm) -> Forall (fun kv => P (fst kv) (snd kv)) vm) -> St s ->
  section_step k f (Done (s, m)) = Done (s', m') -> St s' /\ sec_rel k R m m'.
Proof.
  intros Hin Hs H. unfold section_step in H. cbn [ebind fst snd] in H. unfold sec_rel.
  destruct (assoc k m) as [[| | | | |vm]|] eqn:Ek; try (inversion H; subst; split; [exact Hs|reflexivity]).
  apply ebind_done in H. destruct H as [[s1 vm'] [Hfold H]]. cbn [fst snd] in H. inversion H; subst.
  destruct (sec_fold _ _ _ _ _ (Hin vm eq_refl) Hs Hfold) as [Hs1 [vm2 [-> Hvm2]]].
  split; [exact Hs1|]. exists vm2. split; [reflexivity|exact Hvm2].
Qed.
End OneSection.

(* ---------- the specification ---------- *)
Hypothesis noskip : o_skip OP = false.
Variable DefKey : string -> Prop.
Hypothesis Hwalk : forall s k v rr s' v', DefKey k -> G ctx_base v -> St s -> Coh cwd rr ctx_base ->
  walk E docs cwd OP ctx_base live follow v s ["#/definitions/" ++ k] rr ctx_base = Done (s', v') ->
  St s' /\ Q ctx_base v v'.

Definition spec_rel (m : list (string * json)) (out : json) : Prop :=
  exists m1 m2 m3 m4,
    sec_rel "definitions" (fun _ v v' => Q ctx_base v v') m m1 /\
    sec_rel "parameters" (fun _ => por_rel "Parameter" ctx_base) m1 m2 /\
    sec_rel "responses" (fun _ => por_rel "Response" ctx_base) m2 m3 /\
    sec_rel "paths" (fun k v v' => if has_x_prefix_ci k then v' = v else pi_rel ctx_base v v') m3 m4 /\
    out = JObj m4.

(* the elements of the root document belong to the graphs *)
Definition RootIn (m : list (string * json)) : Prop :=
  (forall vm, assoc "definitions" m = Some (JObj vm) -> Forall (fun kv => DefKey (fst kv) /\ G ctx_base (snd kv)) vm) /\
  (forall vm, assoc "parameters" m = Some (JObj vm) -> Forall (fun kv => PorIn "Parameter" ctx_base (snd kv)) vm) /\
  (forall vm, assoc "responses" m = Some (JObj vm) -> Forall (fun kv => PorIn "Response" ctx_base (snd kv)) vm) /\
  (forall vm, assoc "paths" m = Some (JObj vm) ->
     Forall (fun kv => has_x_prefix_ci (fst kv) = false -> PorIn "PathItem" ctx_base (snd kv)) vm).

Theorem expand_spec_sim root_url m s s' out :
  RootIn m -> St s -> Coh cwd (Some root_url) ctx_base ->
  expand_spec_with E docs cwd OP ctx_base live follow fuel root_url (JObj m) s = Done (s', out) ->
  St s' /\ spec_rel m out.
Proof.
  intros [Hdefs [Hpars [Hresps Hpaths]]] Hs Hcoh H. unfold expand_spec_with in H. rewrite noskip in H.
  apply ebind_done in H. destruct H as [[s4 m4] [H4 H]]. cbn [fst snd] in H. inversion H; subst.
  set (fdef := fun (s : st) (k : string) (v : json) => walk E docs cwd OP ctx_base live follow v s ["#/definitions/" ++ k] (Some root_url) ctx_base) in H4.
  set (fpar := fun (s : st) (_ : string) (v : json) => expand_por E docs cwd OP live follow fuel s (Some root_url) ctx_base "Parameter" v) in H4.
  set (fres := fun (s : st) (_ : string) (v : json) => expand_por E docs cwd OP live follow fuel s (Some root_url) ctx_base "Response" v) in H4.
  match type of H4 with section_step "paths" ?fp ?r3 = _ => set (fpath := fp) in H4; set (R3 := r3) in H4 end.
  assert (Hsec : forall k f acc b, section_step k f acc = Done b -> exists a, acc = Done a).
  { intros k f acc b Hb. unfold section_step in Hb. apply ebind_done in Hb. destruct Hb as [a [Ha _]]. exists a. exact Ha. }
  destruct (Hsec _ _ _ _ H4) as [[s3 m3] H3]. rewrite H3 in H4. subst R3.
  match type of H3 with section_step "responses" _ ?r2 = _ => set (R2 := r2) in H3 end.
  destruct (Hsec _ _ _ _ H3) as [[s2 m2] H2]. rewrite H2 in H3. subst R2.
  match type of H2 with section_step "parameters" _ ?r1 = _ => set (R1 := r1) in H2 end.
  destruct (Hsec _ _ _ _ H2) as [[s1 m1] H1]. rewrite H1 in H2. subst R1.
  destruct (section_sim fdef (fun _ v v' => Q ctx_base v v') (fun k v => DefKey k /\ G ctx_base v)
              (fun s0 key v s0' v' Hp Hs0 Hw => Hwalk s0 key v (Some root_url) s0' v' (proj1 Hp) (proj2 Hp) Hs0 Hcoh Hw)
              "definitions" s m s1 m1 Hdefs Hs H1) as [Hs1 Hr1].
  assert (Ha1 : forall k', "definitions" <> k' -> assoc k' m1 = assoc k' m) by (intros k' Hne; exact (sec_rel_other _ _ _ _ _ Hr1 Hne)).
  destruct (section_sim fpar (fun _ => por_rel "Parameter" ctx_base) (fun _ v => PorIn "Parameter" ctx_base v)
              (fun s0 key v s0' v' Hp Hs0 Hw => por_step "Parameter" s0 (Some root_url) ctx_base v s0' v' Hp Hs0 Hcoh Hw)
              "parameters" s1 m1 s2 m2) as [Hs2 Hr2]; [|exact Hs1|exact H2|].
  { intros vm Hvm. rewrite Ha1 in Hvm by discriminate. exact (Hpars vm Hvm). }
  assert (Ha2 : forall k', "parameters" <> k' -> assoc k' m2 = assoc k' m1) by (intros k' Hne; exact (sec_rel_other _ _ _ _ _ Hr2 Hne)).
  destruct (section_sim fres (fun _ => por_rel "Response" ctx_base) (fun _ v => PorIn "Response" ctx_base v)
              (fun s0 key v s0' v' Hp Hs0 Hw => por_step "Response" s0 (Some root_url) ctx_base v s0' v' Hp Hs0 Hcoh Hw)
              "responses" s2 m2 s3 m3) as [Hs3 Hr3]; [|exact Hs2|exact H3|].
  { intros vm Hvm. rewrite Ha2, Ha1 in Hvm by discriminate. exact (Hresps vm Hvm). }
  assert (Ha3 : forall k', "responses" <> k' -> assoc k' m3 = assoc k' m2) by (intros k' Hne; exact (sec_rel_other _ _ _ _ _ Hr3 Hne)).
  assert (Hfp : forall s0 key v s0' v', (has_x_prefix_ci key = false -> PorIn "PathItem" ctx_base v) -> St s0 -> fpath s0 key v = Done (s0', v') ->
                St s0' /\ (if has_x_prefix_ci key then v' = v else pi_rel ctx_base v v')).
  { intros s0 key v s0' v' Hp Hs0 Hw. unfold fpath in Hw. destruct (has_x_prefix_ci key) eqn:Ex.
    - inversion Hw; subst. split; [exact Hs0|reflexivity].
    - destruct v as [| | | | |pm]; try (inversion Hw; subst; split; [exact Hs0|reflexivity]).
      exact (pi_step s0 (Some root_url) ctx_base (JObj pm) s0' v' (Hp eq_refl) Hs0 Hcoh Hw). }
  assert (Hin4 : forall vm, assoc "paths" m3 = Some (JObj vm) -> Forall (fun kv => has_x_prefix_ci (fst kv) = false -> PorIn "PathItem" ctx_base (snd kv)) vm).
  { intros vm Hvm. rewrite Ha3, Ha2, Ha1 in Hvm by discriminate. exact (Hpaths vm Hvm). }
  destruct (section_sim fpath (fun k v v' => if has_x_prefix_ci k then v' = v else pi_rel ctx_base v v')
              (fun k v => has_x_prefix_ci k = false -> PorIn "PathItem" ctx_base v) Hfp "paths" _ _ _ _ Hin4 Hs3 H4) as [Hs4 Hr4].
  split; [exact Hs4|]. exists m1, m2, m3. eexists. repeat split; eassumption || reflexivity.
Qed.

(* ---------- SkipSchemas mode: the definitions are left alone, the three other sections as before ---------- *)
Definition spec_rel_skip (m : list (string * json)) (out : json) : Prop :=
  exists m2 m3 m4,
    sec_rel "parameters" (fun _ => por_rel "Parameter" ctx_base) m m2 /\
    sec_rel "responses" (fun _ => por_rel "Response" ctx_base) m2 m3 /\
    sec_rel "paths" (fun k v v' => if has_x_prefix_ci k then v' = v else pi_rel ctx_base v v') m3 m4 /\
    out = JObj m4.

Theorem expand_spec_sim_skip root_url m s s' out :
  o_skip OP = true -> RootIn m -> St s -> Coh cwd (Some root_url) ctx_base ->
  expand_spec_with E docs cwd OP ctx_base live follow fuel root_url (JObj m) s = Done (s', out) ->
  St s' /\ spec_rel_skip m out.
Proof.
  intros Hskip [_ [Hpars [Hresps Hpaths]]] Hs Hcoh H. unfold expand_spec_with in H. rewrite Hskip in H.
  apply ebind_done in H. destruct H as [[s4 m4] [H4 H]]. cbn [fst snd] in H. inversion H; subst.
  set (fpar := fun (s : st) (_ : string) (v : json) => expand_por E docs cwd OP live follow fuel s (Some root_url) ctx_base "Parameter" v) in H4.
  set (fres := fun (s : st) (_ : string) (v : json) => expand_por E docs cwd OP live follow fuel s (Some root_url) ctx_base "Response" v) in H4.
  match type of H4 with section_step "paths" ?fp ?r3 = _ => set (fpath := fp) in H4; set (R3 := r3) in H4 end.
  assert (Hsec : forall k f acc b, section_step k f acc = Done b -> exists a, acc = Done a).
  { intros k f acc b Hb. unfold section_step in Hb. apply ebind_done in Hb. destruct Hb as [a [Ha _]]. exists a. exact Ha. }
  destruct (Hsec _ _ _ _ H4) as [[s3 m3] H3]. rewrite H3 in H4. subst R3.
  match type of H3 with section_step "responses" _ ?r2 = _ => set (R2 := r2) in H3 end.
  destruct (Hsec _ _ _ _ H3) as [[s2 m2] H2]. rewrite H2 in H3. subst R2.
  destruct (section_sim fpar (fun _ => por_rel "Parameter" ctx_base) (fun _ v => PorIn "Parameter" ctx_base v)
              (fun s0 key v s0' v' Hp Hs0 Hw => por_step "Parameter" s0 (Some root_url) ctx_base v s0' v' Hp Hs0 Hcoh Hw)
              "parameters" s m s2 m2 Hpars Hs H2) as [Hs2 Hr2].
  assert (Ha2 : forall k', "parameters" <> k' -> assoc k' m2 = assoc k' m) by (intros k' Hne; exact (sec_rel_other _ _ _ _ _ Hr2 Hne)).
  destruct (section_sim fres (fun _ => por_rel "Response" ctx_base) (fun _ v => PorIn "Response" ctx_base v)
              (fun s0 key v s0' v' Hp Hs0 Hw => por_step "Response" s0 (Some root_url) ctx_base v s0' v' Hp Hs0 Hcoh Hw)
              "responses" s2 m2 s3 m3) as [Hs3 Hr3]; [|exact Hs2|exact H3|].
  { intros vm Hvm. rewrite Ha2 in Hvm by discriminate. exact (Hresps vm Hvm). }
  assert (Ha3 : forall k', "responses" <> k' -> assoc k' m3 = assoc k' m2) by (intros k' Hne; exact (sec_rel_other _ _ _ _ _ Hr3 Hne)).
  assert (Hfp : forall s0 key v s0' v', (has_x_prefix_ci key = false -> PorIn "PathItem" ctx_base v) -> St s0 -> fpath s0 key v = Done (s0', v') ->
                St s0' /\ (if has_x_prefix_ci key then v' = v else pi_rel ctx_base v v')).
  { intros s0 key v s0' v' Hp Hs0 Hw. unfold fpath in Hw. destruct (has_x_prefix_ci key) eqn:Ex.
    - inversion Hw; subst. split; [exact Hs0|reflexivity].
    - destruct v as [| | | | |pm]; try (inversion Hw; subst; split; [exact Hs0|reflexivity]).
      exact (pi_step s0 (Some root_url) ctx_base (JObj pm) s0' v' (Hp eq_refl) Hs0 Hcoh Hw). }
  assert (Hin4 : forall vm, assoc "paths" m3 = Some (JObj vm) -> Forall (fun kv => has_x_prefix_ci (fst kv) = false -> PorIn "PathItem" ctx_base (snd kv)) vm).
  { intros vm Hvm. rewrite Ha3, Ha2 in Hvm by discriminate. exact (Hpaths vm Hvm). }
  destruct (section_sim fpath (fun k v v' => if has_x_prefix_ci k then v' = v else pi_rel ctx_base v v')
              (fun k v => has_x_prefix_ci k = false -> PorIn "PathItem" ctx_base v) Hfp "paths" _ _ _ _ Hin4 Hs3 H4) as [Hs4 Hr4].
  split; [exact Hs4|]. exists m2, m3. eexists. repeat split; eassumption || reflexivity.
Qed.

(* ---------- ... and ExpandSpec RETURNS when every reference is resolvable (C04, C08) ---------- *)
Hypothesis GE_resolvable : forall kind b m, GE kind b m -> get_str "$ref" m <> "" ->
  exists nref b1 tm br, nuri (get_str "$ref" m) b = POk nref /\
    sem_target_k E docs cwd kind (get_str "$ref" m) b = Some (b1, JObj tm) /\ new_ref (s2l b) = POk br.
Hypothesis fuel_ok : forall kind b m nref, GE kind b m -> get_str "$ref" m <> "" -> nuri (get_str "$ref" m) b = POk nref -> rk nref < fuel.
Hypothesis Hfollow_total : forall s rr b t, G b t -> St s -> Coh cwd rr b -> exists s' t', follow s [] rr b t = Done (s', t').
Hypothesis Hwalk_total : forall s k v rr, DefKey k -> G ctx_base v -> St s -> Coh cwd rr ctx_base ->
  exists s' v', walk E docs cwd OP ctx_base live follow v s ["#/definitions/" ++ k] rr ctx_base = Done (s', v').

Lemma por_total kind s rroot base j : PorIn kind base j -> St s -> Coh cwd rroot base ->
  exists s' j', expand_por E docs cwd OP live follow fuel s rroot base kind j = Done (s', j') /\ St s'.
Proof.
  intros Hin Hs Hcoh.
  assert (Hex : exists s' j', expand_por E docs cwd OP live follow fuel s rroot base kind j = Done (s', j')).
  { destruct j as [| | | | |m]; try (eexists; eexists; reflexivity). cbn [PorIn] in Hin. unfold expand_por.
    assert (Hab : above rk [] base m) by (intros p nref []).
    destruct (deref_succeeds E docs cwd OP live rid live_served GE GE_holder GE_target GE_same MD fresh rk GE_rank GE_resolvable
                kind fuel s [] rroot base m Hin (St_Inv _ Hs) Hcoh (fun x Hx => St_memo _ _ Hs Hx) Hab
                (fun nref Hr Hn => fuel_ok _ _ _ _ Hin Hr Hn)) as [s1 [m1 [rr1 [b1 Hd]]]].
    rewrite Hd. cbn [ebind].
    destruct (deref_top _ _ _ _ _ _ _ _ _ Hin Hs Hcoh Hd) as [Hs1 [Hc1 [Hend [Hch Hg1]]]].
    destruct (assoc "schema" (remove_key "$ref" m1)) as [[| | | | |sm]|] eqn:Esch; try (eexists; eexists; reflexivity).
    destruct (Hfollow_total _ _ _ _ (GE_schema _ _ _ _ Hg1 Hend Esch) Hs1 Hc1) as [s3 [v' Hf]]. rewrite Hf. cbn [ebind fst snd].
    eexists; eexists; reflexivity. }
  destruct Hex as [s' [j' H]]. exists s', j'. split; [exact H|]. exact (proj1 (por_step _ _ _ _ _ _ _ Hin Hs Hcoh H)).
Qed.

Lemma fold_por_total kind rroot base : forall l s out, Forall (PorIn kind base) l -> St s -> Coh cwd rroot base ->
  exists s' l', fold_por E docs cwd OP live follow fuel l s rroot base kind out = Done (s', l') /\ St s'.
Proof.
  induction l as [|x r IH]; intros s out Hall Hs Hcoh; cbn [fold_por]; [eexists; eexists; split; [reflexivity|exact Hs]|].
  inversion Hall as [|? ? Hx0 Hr0]; subst.
  destruct (por_total kind s rroot base x Hx0 Hs Hcoh) as [s1 [x' [Hx Hs1]]]. rewrite Hx. cbn [ebind fst snd].
  apply IH; assumption.
Qed.
Lemma fold_por_map_total kind rroot base : forall l s out, Forall (EntryIn kind base) l -> St s -> Coh cwd rroot base ->
  exists s' l', fold_por_map E docs cwd OP live follow fuel l s rroot base kind out = Done (s', l') /\ St s'.
Proof.
  induction l as [|[k x] r IH]; intros s out Hall Hs Hcoh; cbn [fold_por_map]; [eexists; eexists; split; [reflexivity|exact Hs]|].
  inversion Hall as [|? ? Hx0 Hr0]; subst. unfold EntryIn in Hx0. cbn [fst snd] in Hx0.
  destruct (has_x_prefix_ci k) eqn:Ex; [apply IH; assumption|].
  destruct (por_total kind s rroot base x (Hx0 eq_refl) Hs Hcoh) as [s1 [x' [Hx Hs1]]]. rewrite Hx. cbn [ebind fst snd].
  apply IH; assumption.
Qed.

Lemma op_total rroot base j s : OpIn base j -> St s -> Coh cwd rroot base ->
  exists s' j', expand_operation E docs cwd OP live follow fuel s rroot base j = Done (s', j') /\ St s'.
Proof.
  intros Hin Hs Hcoh.
  assert (Hex : exists s' j', expand_operation E docs cwd OP live follow fuel s rroot base j = Done (s', j')).
  { destruct j as [| | | | |m]; try (eexists; eexists; reflexivity). destruct Hin as [Hpin Hrin]. unfold expand_operation.
    assert (H1 : exists s1 ma, match assoc "parameters" m with
                 | Some (JArr ps) => ebind (fold_por E docs cwd OP live follow fuel ps s rroot base "Parameter" [])
                                           (fun sp => Done (fst sp, set_member "parameters" (JArr (snd sp)) m))
                 | _ => Done (s, m) end = Done (s1, ma)).
    { destruct (assoc "parameters" m) as [[| | | |ps|]|] eqn:Ep; try (eexists; eexists; reflexivity).
      destruct (fold_por_total "Parameter" rroot base ps s [] (Hpin ps Ep) Hs Hcoh) as [s1 [ps' [Hf _]]]. rewrite Hf. eexists; eexists; reflexivity. }
    destruct H1 as [s1 [ma H1]]. rewrite H1. cbn [ebind fst snd].
    destruct (params_step _ _ _ _ _ _ Hpin Hs Hcoh H1) as [Hs1 Hprel].
    assert (Hresp : assoc "responses" ma = assoc "responses" m).
    { unfold params_rel in Hprel. destruct (assoc "parameters" m) as [[| | | |ps|]|]; try (subst; reflexivity).
      destruct Hprel as [ps' [-> _]]. apply assoc_set_member_neq. discriminate. }
    rewrite Hresp. destruct (assoc "responses" m) as [[| | | | |rs]|] eqn:Er; try (eexists; eexists; reflexivity).
    destruct (fold_por_map_total "Response" rroot base rs s1 [] (Hrin rs eq_refl) Hs1 Hcoh) as [s2 [rs' [Hf _]]]. rewrite Hf. eexists; eexists; reflexivity. }
  destruct Hex as [s' [j' H]]. exists s', j'. split; [exact H|]. exact (proj1 (op_step _ _ _ _ _ _ Hin Hs Hcoh H)).
Qed.

Lemma ops_fold_total rroot base : forall names s m, NoDup names -> OpsIn names base m -> St s -> Coh cwd rroot base ->
  exists s' m', fold_left (fun acc op =>
               ebind acc (fun sm =>
                 match assoc op (snd sm) with
                 | Some o => ebind (expand_operation E docs cwd OP live follow fuel (fst sm) rroot base o)
                                   (fun so => Done (fst so, set_member op (snd so) (snd sm)))
                 | None => Done sm
                 end)) names (Done (s, m)) = Done (s', m') /\ St s'.
Proof.
  induction names as [|op r IH]; intros s m Hnd Hin Hs Hcoh; cbn [fold_left]; [eexists; eexists; split; [reflexivity|exact Hs]|].
  inversion Hnd as [|? ? Hnotin Hnd']; subst. cbn [ebind fst snd].
  assert (Hrest : forall o', OpsIn r base (set_member op o' m)).
  { intros o' op2 o2 Hop2 Ha. apply (Hin op2 o2); [right; exact Hop2|].
    rewrite assoc_set_member_neq in Ha; [exact Ha|]. intros ->. exact (Hnotin Hop2). }
  destruct (assoc op m) as [o|] eqn:Eo.
  - destruct (op_total rroot base o s (Hin op o (or_introl eq_refl) Eo) Hs Hcoh) as [s2 [o' [Hop Hs2]]]. rewrite Hop. cbn [ebind fst snd].
    apply IH; [exact Hnd'|apply Hrest|exact Hs2|exact Hcoh].
  - apply IH; [exact Hnd'| |exact Hs|exact Hcoh]. intros op2 o2 Hop2 Ha. apply (Hin op2 o2); [right; exact Hop2|exact Ha].
Qed.

Lemma pi_total s rroot base j : PorIn "PathItem" base j -> St s -> Coh cwd rroot base ->
  exists s' j', expand_path_item E docs cwd OP live follow fuel s rroot base j = Done (s', j') /\ St s'.
Proof.
  intros Hin Hs Hcoh.
  assert (Hex : exists s' j', expand_path_item E docs cwd OP live follow fuel s rroot base j = Done (s', j')).
  { destruct j as [| | | | |m]; try (eexists; eexists; reflexivity). cbn [PorIn] in Hin. unfold expand_path_item.
    assert (Hab : above rk [] base m) by (intros p nref []).
    destruct (deref_succeeds E docs cwd OP live rid live_served GE GE_holder GE_target GE_same MD fresh rk GE_rank GE_resolvable
                "PathItem" fuel s [] rroot base m Hin (St_Inv _ Hs) Hcoh (fun x Hx => St_memo _ _ Hs Hx) Hab
                (fun nref Hr Hn => fuel_ok _ _ _ _ Hin Hr Hn)) as [s1 [m1 [rr1 [b1 Hd]]]].
    rewrite Hd. cbn [ebind].
    destruct (deref_top _ _ _ _ _ _ _ _ _ Hin Hs Hcoh Hd) as [Hs1 [Hc1 [Hend [Hch Hg1]]]].
    destruct (GE_pi _ _ Hg1 Hend) as [Hpin Hoin].
    assert (H1 : exists s2 ma, match assoc "parameters" (remove_key "$ref" m1) with
                 | Some (JArr ps) => ebind (fold_por E docs cwd OP live follow fuel ps s1 rr1 b1 "Parameter" [])
                                           (fun sp => Done (fst sp, set_member "parameters" (JArr (snd sp)) (remove_key "$ref" m1)))
                 | _ => Done (s1, remove_key "$ref" m1) end = Done (s2, ma)).
    { destruct (assoc "parameters" (remove_key "$ref" m1)) as [[| | | |ps|]|] eqn:Ep; try (eexists; eexists; reflexivity).
      destruct (fold_por_total "Parameter" rr1 b1 ps s1 [] (Hpin ps Ep) Hs1 Hc1) as [s2 [ps' [Hf _]]]. rewrite Hf. eexists; eexists; reflexivity. }
    destruct H1 as [s2 [ma H1]]. rewrite H1.
    destruct (params_step _ _ _ _ _ _ Hpin Hs1 Hc1 H1) as [Hs2 Hprel].
    assert (Hoin' : OpsIn op_names b1 ma).
    { intros op o Hop Ha. apply (Hoin op o Hop). unfold params_rel in Hprel.
      destruct (assoc "parameters" (remove_key "$ref" m1)) as [[| | | |ps|]|]; try (subst; exact Ha).
      destruct Hprel as [ps' [-> _]]. rewrite assoc_set_member_neq in Ha; [exact Ha|]. intros Heq. exact (op_name_not_parameters op Hop (eq_sym Heq)). }
    destruct (ops_fold_total rr1 b1 op_names s2 ma op_names_nodup Hoin' Hs2 Hc1) as [s3 [m3 [Hops _]]]. rewrite Hops. cbn [ebind fst snd].
    eexists; eexists; reflexivity. }
  destruct Hex as [s' [j' H]]. exists s', j'. split; [exact H|]. exact (proj1 (pi_step _ _ _ _ _ _ Hin Hs Hcoh H)).
Qed.

Section OneSectionTotal.
Variable f : st -> string -> json -> eres (st * json).
Variable P : string -> json -> Prop.
Hypothesis Hf : forall s key v, P key v -> St s -> exists s' v', f s key v = Done (s', v') /\ St s'.
Lemma sec_fold_total : forall vm s acc, Forall (fun kv => P (fst kv) (snd kv)) vm -> St s ->
  exists s' out, fold_left (fun acc2 dv => ebind acc2 (fun so2 =>
               ebind (f (fst so2) (fst dv) (snd dv)) (fun sv => Done (fst sv, (snd so2 ++ [(fst dv, snd sv)])%list))))
            vm (Done (s, acc)) = Done (s', out) /\ St s'.
Proof.
  induction vm as [|[k v] r IH]; intros s acc Hall Hs; cbn [fold_left]; [eexists; eexists; split; [reflexivity|exact Hs]|].
  inversion Hall as [|? ? Hx Hr]; subst. cbn [fst snd] in Hx. cbn [ebind fst snd].
  destruct (Hf s k v Hx Hs) as [s1 [v' [Hfv Hs1]]]. rewrite Hfv. cbn [ebind fst snd]. apply IH; assumption.
Qed.
Lemma section_total k s m : (forall vm, assoc k m = Some (JObj vm) -> Forall (fun kv => P (fst kv) (snd kv)) vm) -> St s ->
  exists s' m', section_step k f (Done (s, m)) = Done (s', m') /\ St s'.
Proof.
  intros Hin Hs. unfold section_step. cbn [ebind fst snd].
  destruct (assoc k m) as [[| | | | |vm]|] eqn:Ek; try (eexists; eexists; split; [reflexivity|exact Hs]).
  destruct (sec_fold_total vm s [] (Hin vm eq_refl) Hs) as [s1 [out [Hfold Hs1]]]. rewrite Hfold. cbn [ebind fst snd].
  eexists; eexists; split; [reflexivity|exact Hs1].
Qed.
End OneSectionTotal.

(* ExpandSpec returns: no error, no exhausted fuel, nothing outside the modelled fragment *)
Theorem expand_spec_total root_url m s :
  RootIn m -> St s -> Coh cwd (Some root_url) ctx_base ->
  exists s' out, expand_spec_with E docs cwd OP ctx_base live follow fuel root_url (JObj m) s = Done (s', out).
Proof.
  intros [Hdefs [Hpars [Hresps Hpaths]]] Hs Hcoh. unfold expand_spec_with. rewrite noskip.
  set (fdef := fun (s : st) (k : string) (v : json) => walk E docs cwd OP ctx_base live follow v s ["#/definitions/" ++ k] (Some root_url) ctx_base).
  destruct (section_total fdef (fun k v => DefKey k /\ G ctx_base v)
              (fun s0 key v Hp Hs0 =>
                 match Hwalk_total s0 key v (Some root_url) (proj1 Hp) (proj2 Hp) Hs0 Hcoh with
                 | ex_intro _ s0' (ex_intro _ v' Hw) => ex_intro _ s0' (ex_intro _ v' (conj Hw (proj1 (Hwalk s0 key v (Some root_url) s0' v' (proj1 Hp) (proj2 Hp) Hs0 Hcoh Hw))))
                 end)
              "definitions" s m Hdefs Hs) as [s1 [m1 [H1 Hs1]]].
  rewrite H1.
  destruct (section_sim fdef (fun _ v v' => Q ctx_base v v') (fun k v => DefKey k /\ G ctx_base v)
              (fun s0 key v s0' v' Hp Hs0 Hw => Hwalk s0 key v (Some root_url) s0' v' (proj1 Hp) (proj2 Hp) Hs0 Hcoh Hw)
              "definitions" s m s1 m1 Hdefs Hs H1) as [_ Hr1].
  assert (Ha1 : forall k', "definitions" <> k' -> assoc k' m1 = assoc k' m) by (intros k' Hne; exact (sec_rel_other _ _ _ _ _ Hr1 Hne)).
  set (fpar := fun (s : st) (_ : string) (v : json) => expand_por E docs cwd OP live follow fuel s (Some root_url) ctx_base "Parameter" v).
  destruct (section_total fpar (fun _ v => PorIn "Parameter" ctx_base v)
              (fun s0 key v Hp Hs0 => por_total "Parameter" s0 (Some root_url) ctx_base v Hp Hs0 Hcoh) "parameters" s1 m1) as [s2 [m2 [H2 Hs2]]]; [|exact Hs1|].
  { intros vm Hvm. rewrite Ha1 in Hvm by discriminate. exact (Hpars vm Hvm). }
  rewrite H2.
  destruct (section_sim fpar (fun _ => por_rel "Parameter" ctx_base) (fun _ v => PorIn "Parameter" ctx_base v)
              (fun s0 key v s0' v' Hp Hs0 Hw => por_step "Parameter" s0 (Some root_url) ctx_base v s0' v' Hp Hs0 Hcoh Hw)
              "parameters" s1 m1 s2 m2) as [_ Hr2]; [|exact Hs1|exact H2|].
  { intros vm Hvm. rewrite Ha1 in Hvm by discriminate. exact (Hpars vm Hvm). }
  assert (Ha2 : forall k', "parameters" <> k' -> assoc k' m2 = assoc k' m1) by (intros k' Hne; exact (sec_rel_other _ _ _ _ _ Hr2 Hne)).
  set (fres := fun (s : st) (_ : string) (v : json) => expand_por E docs cwd OP live follow fuel s (Some root_url) ctx_base "Response" v).
  destruct (section_total fres (fun _ v => PorIn "Response" ctx_base v)
              (fun s0 key v Hp Hs0 => por_total "Response" s0 (Some root_url) ctx_base v Hp Hs0 Hcoh) "responses" s2 m2) as [s3 [m3 [H3 Hs3]]]; [|exact Hs2|].
  { intros vm Hvm. rewrite Ha2, Ha1 in Hvm by discriminate. exact (Hresps vm Hvm). }
  rewrite H3.
  destruct (section_sim fres (fun _ => por_rel "Response" ctx_base) (fun _ v => PorIn "Response" ctx_base v)
              (fun s0 key v s0' v' Hp Hs0 Hw => por_step "Response" s0 (Some root_url) ctx_base v s0' v' Hp Hs0 Hcoh Hw)
              "responses" s2 m2 s3 m3) as [_ Hr3]; [|exact Hs2|exact H3|].
  { intros vm Hvm. rewrite Ha2, Ha1 in Hvm by discriminate. exact (Hresps vm Hvm). }
  assert (Ha3 : forall k', "responses" <> k' -> assoc k' m3 = assoc k' m2) by (intros k' Hne; exact (sec_rel_other _ _ _ _ _ Hr3 Hne)).
  set (fpath := fun (s : st) (k : string) (v : json) => if has_x_prefix_ci k then Done (s, v)
                  else match v with JObj _ => expand_path_item E docs cwd OP live follow fuel s (Some root_url) ctx_base v | _ => Done (s, v) end).
  destruct (section_total fpath (fun k v => has_x_prefix_ci k = false -> PorIn "PathItem" ctx_base v)) with (k := "paths") (s := s3) (m := m3) as [s4 [m4 [H4 Hs4]]].
  { intros s0 key v Hp Hs0. unfold fpath. destruct (has_x_prefix_ci key) eqn:Ex; [eexists; eexists; split; [reflexivity|exact Hs0]|].
    destruct v as [| | | | |pm]; try (eexists; eexists; split; [reflexivity|exact Hs0]).
    exact (pi_total s0 (Some root_url) ctx_base (JObj pm) (Hp eq_refl) Hs0 Hcoh). }
  { intros vm Hvm. rewrite Ha3, Ha2, Ha1 in Hvm by discriminate. exact (Hpaths vm Hvm). }
  { exact Hs3. }
  fold fpath. rewrite H4. cbn [ebind fst snd]. eexists; eexists; reflexivity.
Qed.

End SpecSim.

(* ---------- the relation is monotone in what is known of the schemas ---------- *)
Section Mono.
Variable E : env.
Variable docs : list (string * json).
Variable cwd : string.
Variables Q Q' : string -> json -> json -> Prop.
Hypothesis HQ : forall b t t', Q b t t' -> Q' b t t'.

Lemma Forall2_mono {A B} (R R' : A -> B -> Prop) : (forall a b, R a b -> R' a b) -> forall l l', Forall2 R l l' -> Forall2 R' l l'.
Proof. intros H l l' HF. induction HF; constructor; auto. Qed.
Lemma por_out_mono b m mo : por_out Q b m mo -> por_out Q' b m mo.
Proof.
  unfold por_out. destruct (assoc "schema" m) as [[| | | | |sm]|]; auto.
  intros [v' [H1 H2]]. exists v'. split; [exact H1|apply HQ; exact H2].
Qed.
Lemma por_rel_mono kind base j j' : por_rel E docs cwd Q kind base j j' -> por_rel E docs cwd Q' kind base j j'.
Proof.
  unfold por_rel. destruct j; auto. intros [b1 [m1 [mo [H1 [H2 H3]]]]]. exists b1, m1, mo.
  split; [exact H1|split; [exact H2|apply por_out_mono; exact H3]].
Qed.
Lemma entry_rel_mono kind base kv kv' : entry_rel E docs cwd Q kind base kv kv' -> entry_rel E docs cwd Q' kind base kv kv'.
Proof.
  unfold entry_rel. intros [H1 H2]. split; [exact H1|]. destruct (has_x_prefix_ci (fst kv)); [exact H2|apply por_rel_mono; exact H2].
Qed.
Lemma params_rel_mono base m ma : params_rel E docs cwd Q base m ma -> params_rel E docs cwd Q' base m ma.
Proof.
  unfold params_rel. destruct (assoc "parameters" m) as [[| | | |ps|]|]; auto. intros [ps' [H1 H2]]. exists ps'. split; [exact H1|].
  eapply Forall2_mono; [|exact H2]. intros a b. apply por_rel_mono.
Qed.
Lemma resps_rel_mono base ma m' : resps_rel E docs cwd Q base ma m' -> resps_rel E docs cwd Q' base ma m'.
Proof.
  unfold resps_rel. destruct (assoc "responses" ma) as [[| | | | |rs]|]; auto. intros [rs' [H1 H2]]. exists rs'. split; [exact H1|].
  eapply Forall2_mono; [|exact H2]. intros a b. apply entry_rel_mono.
Qed.
Lemma op_rel_mono base j j' : op_rel E docs cwd Q base j j' -> op_rel E docs cwd Q' base j j'.
Proof.
  unfold op_rel. destruct j; auto. intros [ma [m' [H1 [H2 H3]]]]. exists ma, m'.
  split; [apply params_rel_mono; exact H1|split; [apply resps_rel_mono; exact H2|exact H3]].
Qed.
Lemma ops_rel_mono : forall names base m m', ops_rel E docs cwd Q names base m m' -> ops_rel E docs cwd Q' names base m m'.
Proof.
  induction names as [|op r IH]; cbn [ops_rel]; auto. intros base m m' [mi [H1 H2]]. exists mi. split; [|apply IH; exact H2].
  destruct (assoc op m); [|exact H1]. destruct H1 as [o' [Ho Hm]]. exists o'. split; [apply op_rel_mono; exact Ho|exact Hm].
Qed.
Lemma pi_rel_mono base j j' : pi_rel E docs cwd Q base j j' -> pi_rel E docs cwd Q' base j j'.
Proof.
  unfold pi_rel. destruct j; auto. intros [b1 [m1 [ma [m' [H1 [H2 [H3 H4]]]]]]]. exists b1, m1, ma, m'.
  split; [exact H1|split; [apply params_rel_mono; exact H2|split; [apply ops_rel_mono; exact H3|exact H4]]].
Qed.
Lemma sec_rel_mono k (R R' : string -> json -> json -> Prop) m m' :
  (forall key v v', R key v v' -> R' key v v') -> sec_rel k R m m' -> sec_rel k R' m m'.
Proof.
  intros HR. unfold sec_rel. destruct (assoc k m) as [[| | | | |vm]|]; auto. intros [vm' [H1 H2]]. exists vm'. split; [exact H1|].
  eapply Forall2_mono; [|exact H2]. intros a b [Ha Hb]. split; [exact Ha|apply HR; exact Hb].
Qed.
Theorem spec_rel_mono ctx_base m out : spec_rel E docs cwd ctx_base Q m out -> spec_rel E docs cwd ctx_base Q' m out.
Proof.
  intros [m1 [m2 [m3 [m4 [H1 [H2 [H3 [H4 H5]]]]]]]]. exists m1, m2, m3, m4.
  split; [eapply sec_rel_mono; [|exact H1]; intros key v v'; apply HQ|].
  split; [eapply sec_rel_mono; [|exact H2]; intros key v v'; apply por_rel_mono|].
  split; [eapply sec_rel_mono; [|exact H3]; intros key v v'; apply por_rel_mono|].
  split; [eapply sec_rel_mono; [|exact H4]; intros key v v' H; cbv beta in *; destruct (has_x_prefix_ci key); [exact H|apply pi_rel_mono; exact H]|exact H5].
Qed.
End Mono.

(* ---------- the hypotheses decided by computation ---------- *)
Lemma In_mem_str x l : In x l -> mem_str x l = true.
Proof.
  induction l as [|y r IH]; intros H; [destruct H|]. cbn [mem_str]. destruct H as [->|H]; [rewrite String.eqb_refl; reflexivity|].
  rewrite (IH H). apply orb_true_r.
Qed.

Section SpecCheck.
Variable E : env.
Variable docs : list (string * json).
Variable cwd : string.
Variable OP : opts.
Variable ctx_base rid : string.
Variable nodes : list (string * json).                              (* the schema graph (ExpandSimCheck.v) *)
Variable enodes : list (string * string * list (string * json)).   (* the located elements (ExpandElem.v) *)
Variable bad0 : list string.                                        (* what the parent stacks start with: "#/definitions/<name>" *)
Variable ranks : list (string * nat).                               (* a rank for the canonical references of the chains *)

Definition rank_of (x : string) : nat := match assoc x ranks with Some n => n | None => 0 end.

(* chains: their canonical references are not references of the schema graph nor initial stack entries, and the rank
   decreases from hop to hop *)
Definition check_chain_node (p : string * string * list (string * json)) : bool :=
  let kind := fst (fst p) in let b := snd (fst p) in let m := snd p in
  let ref := get_str "$ref" m in
  if String.eqb ref "" then true
  else match nuri ref b with
       | POk nref =>
           negb (mem_str nref (refs_of nodes)) && negb (mem_str nref bad0) &&
           match sem_target_k E docs cwd kind ref b with
           | Some (b1, JObj tm) =>
               let r1 := get_str "$ref" tm in
               if String.eqb r1 "" then true
               else match nuri r1 b1 with POk nref1 => Nat.ltb (rank_of nref1) (rank_of nref) | _ => true end
           | _ => true
           end
       | _ => true
       end.
Definition check_chains : bool := forallb check_chain_node enodes.

(* path items: their parameters, and the parameters and responses of their operations, are located elements *)
Definition por_ok (kind b : string) (j : json) : bool := match j with JObj pm => emem enodes kind b pm | _ => true end.
Definition params_ok (b : string) (m : list (string * json)) : bool :=
  match assoc "parameters" m with Some (JArr ps) => forallb (por_ok "Parameter" b) ps | _ => true end.
Definition op_ok (b : string) (o : json) : bool :=
  match o with
  | JObj om => params_ok b om &&
               match assoc "responses" om with
               | Some (JObj rs) => forallb (fun kv => has_x_prefix_ci (fst kv) || por_ok "Response" b (snd kv)) rs
               | _ => true
               end
  | _ => true
  end.
Definition check_pi_node (p : string * string * list (string * json)) : bool :=
  let kind := fst (fst p) in let b := snd (fst p) in let m := snd p in
  if String.eqb kind "PathItem" && String.eqb (get_str "$ref" m) "" then
    let m2 := remove_key "$ref" m in
    params_ok b m2 && forallb (fun op => match assoc op m2 with Some o => op_ok b o | None => true end) op_names
  else true.
Definition check_pis : bool := forallb check_pi_node enodes.

(* the root document: its definitions are schemas of the graph (and their names are on the initial stack list), its
   shared parameters, responses and path items are located elements *)
Definition check_root (m : list (string * json)) : bool :=
  match assoc "definitions" m with
  | Some (JObj vm) => forallb (fun kv => mem_str ("#/definitions/" ++ fst kv) bad0 && gmem nodes ctx_base (snd kv)) vm
  | _ => true
  end &&
  match assoc "parameters" m with Some (JObj vm) => forallb (fun kv => por_ok "Parameter" ctx_base (snd kv)) vm | _ => true end &&
  match assoc "responses" m with Some (JObj vm) => forallb (fun kv => por_ok "Response" ctx_base (snd kv)) vm | _ => true end &&
  match assoc "paths" m with
  | Some (JObj vm) => forallb (fun kv => has_x_prefix_ci (fst kv) || por_ok "PathItem" ctx_base (snd kv)) vm
  | _ => true
  end.

Variable live : option (string * json).
Hypothesis live_served : forall lu ld, live = Some (lu, ld) -> doc_at docs cwd lu = Some ld.
Hypothesis strict : o_cont OP = false.
Hypothesis noskip : o_skip OP = false.
Hypothesis Hck : check_nodes E docs cwd OP ctx_base rid nodes = true.
Hypothesis Hcke : check_enodes E docs cwd enodes nodes = true.
Hypothesis Hckc : check_chains = true.
Hypothesis Hckp : check_pis = true.

Let GE := GEN enodes.
Let G := GN nodes.
Let St := Inv2 E docs cwd rid G bad0.
Let MD := fun x => on_cycle E docs cwd G x \/ In x bad0.

Lemma chain_checked kind b m : GE kind b m -> check_chain_node (kind, b, m) = true.
Proof. unfold check_chains, GE, GEN in *. intros Hin. rewrite forallb_forall in Hckc. apply Hckc. exact Hin. Qed.

Lemma chk_fresh x : chain_ref GE x -> ~ MD x.
Proof.
  intros [kind [b [m [Hg [Hr Hn]]]]] Hmd. pose proof (chain_checked _ _ _ Hg) as H. unfold check_chain_node in H. cbn [fst snd] in H.
  apply String.eqb_neq in Hr. rewrite Hr, Hn in H. apply andb_true_iff in H. destruct H as [H _]. apply andb_true_iff in H. destruct H as [H1 H2].
  apply negb_true_iff in H1. apply negb_true_iff in H2. destruct Hmd as [Hc|Hb].
  - destruct Hc as [b0 [j0 [bt [b' [j' [[Hg0 [m0 [-> [Hr0 Hn0]]]] _]]]]]].
    assert (Hin : In x (refs_of nodes)) by (apply holder_ref_refs_of; exists b0, m0; auto).
    rewrite (In_mem_str _ _ Hin) in H1. discriminate.
  - rewrite (In_mem_str _ _ Hb) in H2. discriminate.
Qed.

Lemma chk_rank kind b m nref b1 tm nref1 : GE kind b m -> get_str "$ref" m <> "" ->
  nuri (get_str "$ref" m) b = POk nref -> sem_target_k E docs cwd kind (get_str "$ref" m) b = Some (b1, JObj tm) ->
  get_str "$ref" tm <> "" -> nuri (get_str "$ref" tm) b1 = POk nref1 -> rank_of nref1 < rank_of nref.
Proof.
  intros Hg Hr Hn Ht Hr1 Hn1. pose proof (chain_checked _ _ _ Hg) as H. unfold check_chain_node in H. cbn [fst snd] in H.
  apply String.eqb_neq in Hr. apply String.eqb_neq in Hr1. rewrite Hr, Hn, Ht, Hr1, Hn1 in H.
  apply andb_true_iff in H. destruct H as [_ H]. apply Nat.ltb_lt. exact H.
Qed.

Lemma por_ok_In kind b j : por_ok kind b j = true -> PorIn GE kind b j.
Proof. destruct j; cbn; auto. apply emem_GEN. Qed.
Lemma params_ok_In b m : params_ok b m = true -> ParamsIn GE b m.
Proof.
  unfold params_ok, ParamsIn. intros H ps Hps. rewrite Hps in H. rewrite forallb_forall in H.
  apply Forall_forall. intros x Hx. apply por_ok_In. apply H. exact Hx.
Qed.
Lemma op_ok_In b o : op_ok b o = true -> OpIn GE b o.
Proof.
  destruct o as [| | | | |om]; cbn [op_ok OpIn]; auto. intros H. apply andb_true_iff in H. destruct H as [H1 H2].
  split; [apply params_ok_In; exact H1|]. intros rs Hrs. rewrite Hrs in H2. rewrite forallb_forall in H2.
  apply Forall_forall. intros kv Hkv Hx. pose proof (H2 kv Hkv) as H. rewrite Hx in H. apply por_ok_In. exact H.
Qed.

Lemma chk_pi b m : GE "PathItem" b m -> get_str "$ref" m = "" ->
  ParamsIn GE b (remove_key "$ref" m) /\ OpsIn GE op_names b (remove_key "$ref" m).
Proof.
  intros Hg Hr. assert (H : check_pi_node ("PathItem", b, m) = true).
  { unfold check_pis, GE, GEN in *. rewrite forallb_forall in Hckp. apply Hckp. exact Hg. }
  unfold check_pi_node in H. cbn [fst snd] in H. rewrite Hr in H. cbn [String.eqb andb] in H.
  change (String.eqb "PathItem" "PathItem") with true in H. cbn [andb] in H.
  apply andb_true_iff in H. destruct H as [H1 H2]. split; [apply params_ok_In; exact H1|].
  intros op o Hop Ho. rewrite forallb_forall in H2. pose proof (H2 op Hop) as H. rewrite Ho in H. apply op_ok_In. exact H.
Qed.

Lemma chk_root m : check_root m = true -> RootIn ctx_base G GE (fun k => In ("#/definitions/" ++ k) bad0) m.
Proof.
  unfold check_root. intros H. apply andb_true_iff in H. destruct H as [H H4]. apply andb_true_iff in H. destruct H as [H H3].
  apply andb_true_iff in H. destruct H as [H1 H2]. unfold RootIn. repeat split.
  - intros vm Hvm. rewrite Hvm in H1. rewrite forallb_forall in H1. apply Forall_forall. intros kv Hkv.
    pose proof (H1 kv Hkv) as H. apply andb_true_iff in H. destruct H as [Ha Hb]. split; [apply mem_str_In; exact Ha|apply gmem_GN; exact Hb].
  - intros vm Hvm. rewrite Hvm in H2. rewrite forallb_forall in H2. apply Forall_forall. intros kv Hkv. apply por_ok_In. exact (H2 kv Hkv).
  - intros vm Hvm. rewrite Hvm in H3. rewrite forallb_forall in H3. apply Forall_forall. intros kv Hkv. apply por_ok_In. exact (H3 kv Hkv).
  - intros vm Hvm. rewrite Hvm in H4. rewrite forallb_forall in H4. apply Forall_forall. intros kv Hkv Hx.
    pose proof (H4 kv Hkv) as H. rewrite Hx in H. apply por_ok_In. exact H.
Qed.

(* an expanded schema: read at the root location it is bisimilar to the input schema read in its own document (C02), and
   every `$ref` left in it is the rendering of a canonical reference that lies on a cycle of the schema graph - or was on the
   stack the expansion started with (C03) *)
Definition sound_schema (b : string) (t t' : json) : Prop :=
  bisimilar E docs cwd b t ctx_base t' /\ okv E docs cwd OP ctx_base rid G bad0 t t'.

(* ExpandSpec on a checked graph *)
Theorem checked_spec_sim d fuel root_url m s s' out :
  check_root m = true -> St s -> Coh cwd (Some root_url) ctx_base ->
  expand_spec_with E docs cwd OP ctx_base live (exp E docs cwd OP ctx_base live d) fuel root_url (JObj m) s = Done (s', out) ->
  St s' /\ spec_rel E docs cwd ctx_base sound_schema m out.
Proof.
  intros Hroot Hs Hcoh H.
  assert (Hfollow : forall d0 s0 ps rr b t s0' t', G b t -> St s0 -> Coh cwd rr b ->
            PInv E docs cwd G bad0 ps (b, t) ->
            exp E docs cwd OP ctx_base live d0 s0 ps rr b t = Done (s0', t') -> St s0' /\ sound_schema b t t').
  { intros d0 s0 ps rr b t s0' t' Hg Hs0 Hc HP He.
    destruct (checked_graph_cyc E docs cwd OP ctx_base rid nodes live bad0 Hck live_served strict noskip d0 s0 ps rr b t s0' t' Hg Hs0 Hc HP He) as [Hs0' Hok].
    destruct (checked_graph_sim E docs cwd OP ctx_base rid nodes live Hck live_served strict d0 s0 ps rr b t s0' t' Hg (proj1 Hs0) Hc He) as [_ Hb].
    split; [exact Hs0'|split; [exact Hb|exact Hok]]. }
  apply (expand_spec_sim E docs cwd OP ctx_base live rid live_served strict St (fun s0 Hs0 => proj1 Hs0) MD
           (fun s0 x Hs0 Hx => proj2 Hs0 x Hx)
           (fun s0 s0' Hs0 Hi Hm => conj Hi (fun x Hx => proj2 Hs0 x (eq_ind _ (fun l => In x l) Hx _ Hm)))
           G (exp E docs cwd OP ctx_base live d) sound_schema
           (fun s0 rr b t s0' t' Hg Hs0 Hc He => Hfollow d s0 [] rr b t s0' t' Hg Hs0 Hc (fun p Hp => match Hp with end) He)
           GE (GEN_holder E docs cwd enodes nodes Hcke) (GEN_target E docs cwd enodes nodes Hcke) (GEN_same E docs cwd enodes nodes Hcke)
           (GEN_schema E docs cwd enodes nodes Hcke) chk_fresh rank_of chk_rank fuel chk_pi noskip
           (fun k => In ("#/definitions/" ++ k) bad0)
           (fun s0 k v rr s0' v' Hk Hg Hs0 Hc Hw =>
              Hfollow (S d) s0 ["#/definitions/" ++ k] rr ctx_base v s0' v' Hg Hs0 Hc
                      (fun p Hp => match Hp with or_introl e => or_introl (eq_ind _ (fun q => In q bad0) Hk _ e) | or_intror f => match f with end end) Hw)
           root_url m s s' out (chk_root m Hroot) Hs Hcoh H).
Qed.

(* ---------- ... and returns ---------- *)
Definition eresolvable_node (p : string * string * list (string * json)) : bool :=
  let kind := fst (fst p) in let b := snd (fst p) in let m := snd p in
  let ref := get_str "$ref" m in
  if String.eqb ref "" then true
  else is_pok (nuri ref b) && match sem_target_k E docs cwd kind ref b with Some (_, JObj _) => true | _ => false end
       && is_pok (new_ref (s2l b)).
Definition check_eresolvable : bool := forallb eresolvable_node enodes.

Lemma chk_eresolvable : check_eresolvable = true -> forall kind b m, GE kind b m -> get_str "$ref" m <> "" ->
  exists nref b1 tm br, nuri (get_str "$ref" m) b = POk nref /\
    sem_target_k E docs cwd kind (get_str "$ref" m) b = Some (b1, JObj tm) /\ new_ref (s2l b) = POk br.
Proof.
  intros Hc kind b m Hg Hr. unfold check_eresolvable in Hc. rewrite forallb_forall in Hc. pose proof (Hc _ Hg) as H.
  unfold eresolvable_node in H. cbn [fst snd] in H. apply String.eqb_neq in Hr. rewrite Hr in H.
  apply andb_true_iff in H. destruct H as [H H3]. apply andb_true_iff in H. destruct H as [H1 H2].
  destruct (nuri (get_str "$ref" m) b) as [nref| |]; try discriminate.
  destruct (sem_target_k E docs cwd kind (get_str "$ref" m) b) as [[b1 [| | | | |tm]]|]; try discriminate.
  destruct (new_ref (s2l b)) as [br| |]; try discriminate.
  exists nref, b1, tm, br. repeat split.
Qed.

Lemma rank_of_lt fuel x : forallb (fun kr => Nat.ltb (snd kr) fuel) ranks = true -> 0 < fuel -> rank_of x < fuel.
Proof.
  intros Hall Hpos. unfold rank_of. destruct (assoc x ranks) as [n|] eqn:Ea; [|exact Hpos].
  assert (Hin : In (x, n) ranks).
  { clear Hall. induction ranks as [|[k v] r IH]; cbn [assoc] in Ea; [discriminate|]. destruct (String.eqb x k) eqn:Ek.
    - apply String.eqb_eq in Ek. inversion Ea; subst. left. reflexivity.
    - right. exact (IH Ea). }
  rewrite forallb_forall in Hall. pose proof (Hall _ Hin) as H. cbn [snd] in H. apply Nat.ltb_lt. exact H.
Qed.

(* ExpandSpec on a checked graph in which every reference is resolvable RETURNS a result, from every consistent state,
   when the fuel exceeds the number of references of the schema graph and the length of the chains *)
Theorem checked_spec_total d root_url m s :
  check_resolvable E docs cwd OP ctx_base rid nodes = true -> check_eresolvable = true ->
  List.length (refs_of nodes) < d -> forallb (fun kr => Nat.ltb (snd kr) (S d)) ranks = true ->
  check_root m = true -> St s -> Coh cwd (Some root_url) ctx_base ->
  exists s' out, expand_spec E docs cwd OP ctx_base live d root_url (JObj m) s = Done (s', out).
Proof.
  intros Hres Heres Hlen Hranks Hroot Hs Hcoh. unfold expand_spec.
  assert (Hfollow : forall d0 s0 ps rr b t s0' t', G b t -> St s0 -> Coh cwd rr b ->
            PInv E docs cwd G bad0 ps (b, t) ->
            exp E docs cwd OP ctx_base live d0 s0 ps rr b t = Done (s0', t') -> St s0' /\ sound_schema b t t').
  { intros d0 s0 ps rr b t s0' t' Hg Hs0 Hc HP He.
    destruct (checked_graph_cyc E docs cwd OP ctx_base rid nodes live bad0 Hck live_served strict noskip d0 s0 ps rr b t s0' t' Hg Hs0 Hc HP He) as [Hs0' Hok].
    destruct (checked_graph_sim E docs cwd OP ctx_base rid nodes live Hck live_served strict d0 s0 ps rr b t s0' t' Hg (proj1 Hs0) Hc He) as [_ Hb].
    split; [exact Hs0'|split; [exact Hb|exact Hok]]. }
  assert (Htotal : forall d0 s0 ps rr b t, List.length (refs_of nodes) < d0 -> NoDup ps -> G b t -> St s0 -> Coh cwd rr b ->
            exists s0' t', exp E docs cwd OP ctx_base live d0 s0 ps rr b t = Done (s0', t')).
  { intros d0 s0 ps rr b t Hl Hnd Hg Hs0 Hc.
    exact (checked_exp_succeeds E docs cwd OP ctx_base rid nodes live Hck Hres live_served strict d0 s0 ps rr b t Hnd Hl Hg (proj1 Hs0) Hc). }
  apply (expand_spec_total E docs cwd OP ctx_base live rid live_served strict St (fun s0 Hs0 => proj1 Hs0) MD
           (fun s0 x Hs0 Hx => proj2 Hs0 x Hx)
           (fun s0 s0' Hs0 Hi Hm => conj Hi (fun x Hx => proj2 Hs0 x (eq_ind _ (fun l => In x l) Hx _ Hm)))
           G (exp E docs cwd OP ctx_base live d) sound_schema
           (fun s0 rr b t s0' t' Hg Hs0 Hc He => Hfollow d s0 [] rr b t s0' t' Hg Hs0 Hc (fun p Hp => match Hp with end) He)
           GE (GEN_holder E docs cwd enodes nodes Hcke) (GEN_target E docs cwd enodes nodes Hcke) (GEN_same E docs cwd enodes nodes Hcke)
           (GEN_schema E docs cwd enodes nodes Hcke) chk_fresh rank_of chk_rank (S d) chk_pi noskip
           (fun k => In ("#/definitions/" ++ k) bad0)
           (fun s0 k v rr s0' v' Hk Hg Hs0 Hc Hw =>
              Hfollow (S d) s0 ["#/definitions/" ++ k] rr ctx_base v s0' v' Hg Hs0 Hc
                      (fun p Hp => match Hp with or_introl e => or_introl (eq_ind _ (fun q => In q bad0) Hk _ e) | or_intror f => match f with end end) Hw)
           (chk_eresolvable Heres)
           (fun kind b m0 nref _ _ _ => rank_of_lt (S d) nref Hranks (Nat.lt_0_succ d))
           (fun s0 rr b t Hg Hs0 Hc => Htotal d s0 [] rr b t Hlen (NoDup_nil _) Hg Hs0 Hc)
           (fun s0 k v rr Hk Hg Hs0 Hc => Htotal (S d) s0 ["#/definitions/" ++ k] rr ctx_base v (Nat.lt_lt_succ_r _ _ Hlen)
                                            (NoDup_cons _ (@in_nil string _) (NoDup_nil _)) Hg Hs0 Hc)
           root_url m s (chk_root m Hroot) Hs Hcoh).
Qed.

(* ---------- one parameter / response on a checked graph (the single-element entry points, C10) ---------- *)
Theorem checked_por_step kind d fuel s rroot base j s' j' :
  PorIn GE kind base j -> St s -> Coh cwd rroot base ->
  expand_por E docs cwd OP live (exp E docs cwd OP ctx_base live d) fuel s rroot base kind j = Done (s', j') ->
  St s' /\ por_rel E docs cwd sound_schema kind base j j'.
Proof.
  intros Hin Hs Hcoh H.
  apply (por_step E docs cwd OP live rid live_served strict St (fun s0 Hs0 => proj1 Hs0) MD
           (fun s0 x Hs0 Hx => proj2 Hs0 x Hx)
           (fun s0 s0' Hs0 Hi Hm => conj Hi (fun x Hx => proj2 Hs0 x (eq_ind _ (fun l => In x l) Hx _ Hm)))
           G (exp E docs cwd OP ctx_base live d) sound_schema
           (fun s0 rr b t s0' t' Hg Hs0 Hc He =>
              let HP : PInv E docs cwd G bad0 [] (b, t) := fun p Hp => match Hp with end in
              conj (proj1 (checked_graph_cyc E docs cwd OP ctx_base rid nodes live bad0 Hck live_served strict noskip d s0 [] rr b t s0' t' Hg Hs0 Hc HP He))
                   (conj (proj2 (checked_graph_sim E docs cwd OP ctx_base rid nodes live Hck live_served strict d s0 [] rr b t s0' t' Hg (proj1 Hs0) Hc He))
                         (proj2 (checked_graph_cyc E docs cwd OP ctx_base rid nodes live bad0 Hck live_served strict noskip d s0 [] rr b t s0' t' Hg Hs0 Hc HP He))))
           GE (GEN_holder E docs cwd enodes nodes Hcke) (GEN_target E docs cwd enodes nodes Hcke) (GEN_same E docs cwd enodes nodes Hcke)
           (GEN_schema E docs cwd enodes nodes Hcke) chk_fresh rank_of chk_rank fuel kind s rroot base j s' j' Hin Hs Hcoh H).
Qed.

(* ---------- SkipSchemas mode ---------- *)
Lemma exp_skip_state : o_skip OP = true -> forall d s ps rr b t s' t',
  G b t -> exp E docs cwd OP ctx_base live d s ps rr b t = Done (s', t') -> s' = s.
Proof.
  intros Hskip d s ps rr b t s' t' Hg H. destruct d as [|d]; [discriminate|]. cbn [exp] in H.
  exact (walk_skip_state E docs cwd OP ctx_base live Hskip G (GN_child E docs cwd OP ctx_base rid nodes Hck) (GN_plain E docs cwd OP ctx_base rid nodes Hck)
           (exp E docs cwd OP ctx_base live d) t s ps rr b s' t' Hg H).
Qed.

(* ExpandSpec with SkipSchemas on a checked graph: the definitions are left alone; every shared parameter, shared response
   and path item is replaced by the end of its chain, the schemas below them by schemas whose `$ref`s are rebased and which,
   read at the root location, are bisimilar to the input's *)
Theorem checked_spec_sim_skip d fuel root_url m s s' out :
  o_skip OP = true -> check_root m = true -> St s -> Coh cwd (Some root_url) ctx_base ->
  expand_spec_with E docs cwd OP ctx_base live (exp E docs cwd OP ctx_base live d) fuel root_url (JObj m) s = Done (s', out) ->
  St s' /\ spec_rel_skip E docs cwd ctx_base (fun b t t' => bisimilar E docs cwd b t ctx_base t') m out.
Proof.
  intros Hskip Hroot Hs Hcoh H.
  apply (expand_spec_sim_skip E docs cwd OP ctx_base live rid live_served strict St (fun s0 Hs0 => proj1 Hs0) MD
           (fun s0 x Hs0 Hx => proj2 Hs0 x Hx)
           (fun s0 s0' Hs0 Hi Hm => conj Hi (fun x Hx => proj2 Hs0 x (eq_ind _ (fun l => In x l) Hx _ Hm)))
           G (exp E docs cwd OP ctx_base live d) (fun b t t' => bisimilar E docs cwd b t ctx_base t')
           (fun s0 rr b t s0' t' Hg Hs0 Hc He =>
              conj (eq_ind_r St Hs0 (exp_skip_state Hskip d s0 [] rr b t s0' t' Hg He))
                   (proj2 (checked_graph_sim E docs cwd OP ctx_base rid nodes live Hck live_served strict d s0 [] rr b t s0' t' Hg (proj1 Hs0) Hc He)))
           GE (GEN_holder E docs cwd enodes nodes Hcke) (GEN_target E docs cwd enodes nodes Hcke) (GEN_same E docs cwd enodes nodes Hcke)
           (GEN_schema E docs cwd enodes nodes Hcke) chk_fresh rank_of chk_rank fuel chk_pi
           (fun k => In ("#/definitions/" ++ k) bad0)
           root_url m s s' out Hskip (chk_root m Hroot) Hs Hcoh H).
Qed.
End SpecCheck.

(* ---------- computing the graph of located elements of a specification ---------- *)
Definition enode := (string * string * list (string * json))%type.
Definition por_items (kind b : string) (l : list json) : list enode :=
  flat_map (fun j => match j with JObj pm => [(kind, b, pm)] | _ => [] end) l.
Definition op_items (b : string) (o : json) : list enode :=
  match o with
  | JObj om =>
      (match assoc "parameters" om with Some (JArr ps) => por_items "Parameter" b ps | _ => [] end ++
       match assoc "responses" om with
       | Some (JObj rs) => flat_map (fun kv => if has_x_prefix_ci (fst kv) then [] else por_items "Response" b [snd kv]) rs
       | _ => []
       end)%list
  | _ => []
  end.
Definition pi_items (b : string) (m2 : list (string * json)) : list enode :=
  (match assoc "parameters" m2 with Some (JArr ps) => por_items "Parameter" b ps | _ => [] end ++
   flat_map (fun op => match assoc op m2 with Some o => op_items b o | None => [] end) op_names)%list.
Definition enode_eqb (p q : enode) : bool :=
  String.eqb (fst (fst p)) (fst (fst q)) && String.eqb (snd (fst p)) (snd (fst q)) && json_seqb (JObj (snd p)) (JObj (snd q)).

Fixpoint collect_e (E : env) (docs : list (string * json)) (cwd : string) (fuel : nat) (work acc : list enode) : list enode :=
  match fuel with
  | 0 => acc
  | S f =>
      match work with
      | [] => acc
      | p :: w =>
          if existsb (enode_eqb p) acc then collect_e E docs cwd f w acc
          else
            let kind := fst (fst p) in let b := snd (fst p) in let m := snd p in
            let ref := get_str "$ref" m in
            let next := if String.eqb ref "" then (if String.eqb kind "PathItem" then pi_items b (remove_key "$ref" m) else [])
                        else match sem_target_k E docs cwd kind ref b with Some (b1, JObj tm) => [(kind, b1, tm)] | _ => [] end in
            collect_e E docs cwd f (next ++ w)%list (p :: acc)
      end
  end.

(* the elements of the root document *)
Definition root_items (ctx_base : string) (m : list (string * json)) : list enode :=
  (match assoc "parameters" m with Some (JObj vm) => por_items "Parameter" ctx_base (map snd vm) | _ => [] end ++
   match assoc "responses" m with Some (JObj vm) => por_items "Response" ctx_base (map snd vm) | _ => [] end ++
   match assoc "paths" m with
   | Some (JObj vm) => flat_map (fun kv => if has_x_prefix_ci (fst kv) then [] else por_items "PathItem" ctx_base [snd kv]) vm
   | _ => []
   end)%list.
(* where the schema graph starts: the definitions of the root and the schemas of the elements *)
Definition schema_starts (ctx_base : string) (m : list (string * json)) (enodes : list enode) : list (string * json) :=
  (match assoc "definitions" m with Some (JObj vm) => map (fun kv => (ctx_base, snd kv)) vm | _ => [] end ++
   flat_map (fun p => if String.eqb (get_str "$ref" (snd p)) "" then
                        match assoc "schema" (remove_key "$ref" (snd p)) with Some (JObj sm) => [(snd (fst p), JObj sm)] | _ => [] end
                      else []) enodes)%list.
Definition def_keys (m : list (string * json)) : list string :=
  match assoc "definitions" m with Some (JObj vm) => map (fun kv => "#/definitions/" ++ fst kv) vm | _ => [] end.

Fixpoint chain_len (E : env) (docs : list (string * json)) (cwd : string) (fuel : nat) (kind b : string) (m : list (string * json)) : nat :=
  match fuel with
  | 0 => 0
  | S f => let ref := get_str "$ref" m in
           if String.eqb ref "" then 0
           else match sem_target_k E docs cwd kind ref b with Some (b1, JObj tm) => S (chain_len E docs cwd f kind b1 tm) | _ => 1 end
  end.
Definition ranks_of (E : env) (docs : list (string * json)) (cwd : string) (enodes : list enode) : list (string * nat) :=
  flat_map (fun p => let ref := get_str "$ref" (snd p) in
                     if String.eqb ref "" then []
                     else match nuri ref (snd (fst p)) with
                          | POk x => [(x, chain_len E docs cwd 64 (fst (fst p)) (snd (fst p)) (snd p))]
                          | _ => []
                          end) enodes.
