(* Cut points (C03): every `$ref` that a successful full expansion leaves behind is the rendering of a canonical
   reference that lies ON A CYCLE of the input reference graph; hence an acyclic graph ends `$ref`-free.

   The input graph is the one of ExpandSim.v: located schema objects, with an edge from an object without reference to
   each object at one of its sub-schema positions, and from a reference holder to its target (sem_target).  A canonical
   reference [nref] is on a cycle when some holder of nref has a target from which a holder of nref is reachable.

   The proof carries two invariants through the walk: every reference on the parent stack has a holder whose target
   reaches the position being expanded (so meeting it again closes a cycle), and the memo of circular references only
   holds references on cycles (it is only ever fed from the stack).  Both are relative to the references the caller put
   on the stack or in the memo at the start ([bad0]), about which nothing is known. *)
From Coq Require Import List String Ascii Bool Arith Lia.
From Spec Require Import Base.Json Base.JsonFacts Base.Url Base.UrlFacts Codec.Types Codec.Codec
  Expand.Expand Expand.ExpandFacts Expand.ExpandSim.
Import ListNotations.
Local Open Scope string_scope.

Lemma mem_str_In s l : mem_str s l = true -> In s l.
Proof.
  induction l as [|x r IH]; cbn [mem_str]; [discriminate|]. intros H. apply orb_true_iff in H.
  destruct H as [H|H]; [left; symmetry; apply String.eqb_eq; exact H|right; exact (IH H)].
Qed.

(* the sub-schema positions of one member (k, v) of a schema object: exactly those child_step descends into *)
Inductive schema_child (k : string) : json -> json -> Prop :=
| sc_map vm k' x : mem_str k ["definitions"; "properties"; "patternProperties"; "dependencies"] = true ->
    In (k', x) vm -> schema_child k (JObj vm) x
| sc_arr l x : mem_str k ["definitions"; "properties"; "patternProperties"; "dependencies"] = false ->
    mem_str k ["allOf"; "anyOf"; "oneOf"] = true -> In x l -> schema_child k (JArr l) x
| sc_items_arr l x : mem_str k ["definitions"; "properties"; "patternProperties"; "dependencies"] = false ->
    mem_str k ["allOf"; "anyOf"; "oneOf"] = false -> String.eqb k "items" = true -> In x l -> schema_child k (JArr l) x
| sc_items_obj vm : mem_str k ["definitions"; "properties"; "patternProperties"; "dependencies"] = false ->
    mem_str k ["allOf"; "anyOf"; "oneOf"] = false -> String.eqb k "items" = true -> schema_child k (JObj vm) (JObj vm)
| sc_single vm : mem_str k ["definitions"; "properties"; "patternProperties"; "dependencies"] = false ->
    mem_str k ["allOf"; "anyOf"; "oneOf"] = false -> String.eqb k "items" = false ->
    mem_str k ["not"; "additionalProperties"; "additionalItems"] = true -> schema_child k (JObj vm) (JObj vm).

Lemma schema_child_child_of k v x : schema_child k v x -> child_of x v.
Proof. intros H. inversion H; subst; try (apply co_self); try (apply co_elem; assumption). eapply co_value; eassumption. Qed.

(* ---------- the fold lemmas of ExpandSim.v with the domain restricted to sub-schema positions ---------- *)
Section FoldRel2.
Variable W : json -> st -> eres (st * json).
Variable Iv : st -> Prop.
Variable R : json -> json -> Prop.
Variable Dom : json -> Prop.
Hypothesis HW : forall x s s' x', Dom x -> Iv s -> W x s = Done (s', x') -> Iv s' /\ R x x'.

Lemma child_step_rel2 k v s s' v' : (forall x, schema_child k v x -> Dom x) -> Iv s ->
  child_step W k v s = Done (s', v') -> Iv s' /\ rel_child R k v v'.
Proof.
  intros Hd Hs. unfold child_step, rel_child.
  destruct (mem_str k ["definitions"; "properties"; "patternProperties"; "dependencies"]) eqn:E1.
  { destruct v as [| | | |l|vm]; try (intros H; inversion H; subst; split; [exact Hs|reflexivity]).
    destruct (fold_values W vm s []) as [[s1 vm']|sf| |] eqn:Ef; try discriminate. intros H. inversion H; subst.
    destruct (fold_values_rel W Iv R Dom HW _ _ _ _ _ (fun k' x Hin => Hd x (sc_map k vm k' x E1 Hin)) Hs Ef) as [Hs' [l2 [-> F]]].
    split; [exact Hs'|]. exists l2. split; [reflexivity|exact F]. }
  destruct (mem_str k ["allOf"; "anyOf"; "oneOf"]) eqn:E2.
  { destruct v as [| | | |l|vm]; try (intros H; inversion H; subst; split; [exact Hs|reflexivity]).
    destruct (fold_elems W l s []) as [[s1 l']|sf| |] eqn:Ef; try discriminate. intros H. inversion H; subst.
    destruct (fold_elems_rel W Iv R Dom HW _ _ _ _ _ (fun x Hin => Hd x (sc_arr k l x E1 E2 Hin)) Hs Ef) as [Hs' [l2 [-> F]]].
    split; [exact Hs'|]. exists l2. split; [reflexivity|exact F]. }
  destruct (String.eqb k "items") eqn:E3.
  { destruct v as [| | | |l|vm]; try (intros H; inversion H; subst; split; [exact Hs|reflexivity]).
    - destruct (fold_elems W l s []) as [[s1 l']|sf| |] eqn:Ef; try discriminate. intros H. inversion H; subst.
      destruct (fold_elems_rel W Iv R Dom HW _ _ _ _ _ (fun x Hin => Hd x (sc_items_arr k l x E1 E2 E3 Hin)) Hs Ef) as [Hs' [l2 [-> F]]].
      split; [exact Hs'|]. exists l2. split; [reflexivity|exact F].
    - intros H. exact (HW _ _ _ _ (Hd _ (sc_items_obj k vm E1 E2 E3)) Hs H). }
  destruct (mem_str k ["not"; "additionalProperties"; "additionalItems"]) eqn:E4.
  { destruct v as [| | | |l|vm]; try (intros H; inversion H; subst; split; [exact Hs|reflexivity]).
    intros H. exact (HW _ _ _ _ (Hd _ (sc_single k vm E1 E2 E3 E4)) Hs H). }
  intros H; inversion H; subst; split; [exact Hs|reflexivity].
Qed.

Lemma fold_members_rel2 : forall m s out s' m', (forall k v x, In (k, v) m -> schema_child k v x -> Dom x) -> Iv s ->
  fold_members W m s out = Done (s', m') -> Iv s' /\ exists m2, m' = (rev out ++ m2)%list /\ rel_members R m m2.
Proof.
  induction m as [|[k v] r IH]; intros s out s' m' Hd Hs H; cbn [fold_members] in H.
  - inversion H; subst. split; [exact Hs|]. exists []. rewrite app_nil_r. split; [reflexivity|constructor].
  - destruct (child_step W k v s) as [[s1 v']|sf| |] eqn:Ec; try discriminate.
    destruct (child_step_rel2 _ _ _ _ _ (fun x Hx => Hd k v x (or_introl eq_refl) Hx) Hs Ec) as [Hs1 Hc].
    destruct (IH _ _ _ _ (fun k' v0 x Hin Hx => Hd k' v0 x (or_intror Hin) Hx) Hs1 H) as [Hs' [m2 [-> F]]].
    split; [exact Hs'|]. exists ((k, v') :: m2). cbn [rev]. rewrite <- app_assoc.
    split; [reflexivity|constructor; [split; [reflexivity|exact Hc]|exact F]].
Qed.
End FoldRel2.

(* what a member-wise relation that only speaks about the OUTPUT says of the output's sub-schema positions *)
Section OutOnly.
Variable Q : json -> Prop.
Hypothesis HQobj : forall x, Q x -> exists mm, x = JObj mm.
Let R := fun (x x' : json) => match x with JObj _ => Q x' | _ => True end.

Lemma Forall2_in_r {A B} (P : A -> B -> Prop) l l' b : Forall2 P l l' -> In b l' -> exists a, In a l /\ P a b.
Proof.
  intros F. induction F as [|a0 b0 l l' H F IH]; intros Hin; [destruct Hin|].
  destruct Hin as [<-|Hin]; [exists a0; split; [left; reflexivity|exact H]|].
  destruct (IH Hin) as [a [Ha Hp]]. exists a. split; [right; exact Ha|exact Hp].
Qed.

Lemma rel_val_out x x' mm : rel_val R x x' -> x' = JObj mm -> Q x'.
Proof. unfold rel_val, R. destruct x; intros H E; subst; try discriminate; exact H. Qed.
Lemma R_obj m0 x' : R (JObj m0) x' -> Q x'.
Proof. exact (fun H => H). Qed.

Lemma rel_child_out k v v' x' mm : rel_child R k v v' -> schema_child k v' x' -> x' = JObj mm -> Q x'.
Proof.
  intros Hc Hs Ex. unfold rel_child in Hc. inversion Hs as [vm k' x E1 Hin|l x E1 E2 Hin|l x E1 E2 E3 Hin|vm E1 E2 E3|vm E1 E2 E3 E4]; subst.
  - rewrite E1 in Hc. destruct v; try discriminate Hc. destruct Hc as [vm' [Ev F]]. inversion Ev; subst.
    destruct (Forall2_in_r _ _ _ _ F Hin) as [[k0 x0] [_ [_ Hv]]]. cbn [snd] in Hv. eapply rel_val_out; [exact Hv|reflexivity].
  - rewrite E1, E2 in Hc. destruct v; try discriminate Hc. destruct Hc as [l' [Ev F]]. inversion Ev; subst.
    destruct (Forall2_in_r _ _ _ _ F Hin) as [x0 [_ Hv]]. eapply rel_val_out; [exact Hv|reflexivity].
  - rewrite E1, E2, E3 in Hc. destruct v; try discriminate Hc; [|destruct (HQobj _ (R_obj _ _ Hc)) as [m0 Hm0]; discriminate Hm0].
    destruct Hc as [l' [Ev F]]. inversion Ev; subst.
    destruct (Forall2_in_r _ _ _ _ F Hin) as [x0 [_ Hv]]. eapply rel_val_out; [exact Hv|reflexivity].
  - rewrite E1, E2, E3 in Hc. destruct v; try discriminate Hc; try (destruct Hc as [l' [Ev _]]; discriminate). exact Hc.
  - rewrite E1, E2, E3, E4 in Hc. destruct v; try discriminate Hc. exact Hc.
Qed.

Lemma rel_members_out m m' k v' x' mm : rel_members R m m' -> In (k, v') m' -> schema_child k v' x' -> x' = JObj mm -> Q x'.
Proof.
  intros F Hin Hs Ex. destruct (Forall2_in_r _ _ _ _ F Hin) as [[k0 v0] [_ [Hk Hc]]]. cbn [fst snd] in *. subst k0.
  eapply rel_child_out; eassumption.
Qed.
End OutOnly.

