(* Cut points (C03): every `$ref` that a successful full expansion leaves behind is the rendering of a canonical
   reference that lies ON A CYCLE of the input reference graph; hence an acyclic graph ends `$ref`-free.

   The input graph is the one of ExpandSim.v: located schema objects, with an edge from an object without reference to
   each object at one of its sub-schema positions, and from a reference holder to its target (sem_target).  A canonical
   reference [nref] is on a cycle when some holder of nref has a target from which a holder of nref is reachable.

   The proof carries two invariants through the walk: every reference on the parent stack has a holder whose target
   reaches the position being expanded (so meeting it again closes a cycle), and the memo of circular references only
   holds references on cycles (it is only ever fed from the stack).  Both are relative to the references the caller put
   on the stack or in the memo at the start ([bad0]), about which nothing is known. *)
From Coq Require Import List String Ascii Bool Arith Lia.
From Spec Require Import Base.Json Base.JsonFacts Base.Url Base.UrlFacts Codec.Types Codec.Codec
  Expand.Expand Expand.ExpandFacts Expand.ExpandSim Expand.ExpandSimCheck.
Import ListNotations.
Local Open Scope string_scope.

Lemma mem_str_In s l : mem_str s l = true -> In s l.
Proof.
  induction l as [|x r IH]; cbn [mem_str]; [discriminate|]. intros H. apply orb_true_iff in H.
  destruct H as [H|H]; [left; symmetry; apply String.eqb_eq; exact H|right; exact (IH H)].
Qed.

(* the sub-schema positions of one member (k, v) of a schema object: exactly those child_step descends into *)
Inductive schema_child (k : string) : json -> json -> Prop :=
| sc_map vm k' x : mem_str k ["definitions"; "properties"; "patternProperties"; "dependencies"] = true ->
    In (k', x) vm -> schema_child k (JObj vm) x
| sc_arr l x : mem_str k ["definitions"; "properties"; "patternProperties"; "dependencies"] = false ->
    mem_str k ["allOf"; "anyOf"; "oneOf"] = true -> In x l -> schema_child k (JArr l) x
| sc_items_arr l x : mem_str k ["definitions"; "properties"; "patternProperties"; "dependencies"] = false ->
    mem_str k ["allOf"; "anyOf"; "oneOf"] = false -> String.eqb k "items" = true -> In x l -> schema_child k (JArr l) x
| sc_items_obj vm : mem_str k ["definitions"; "properties"; "patternProperties"; "dependencies"] = false ->
    mem_str k ["allOf"; "anyOf"; "oneOf"] = false -> String.eqb k "items" = true -> schema_child k (JObj vm) (JObj vm)
| sc_single vm : mem_str k ["definitions"; "properties"; "patternProperties"; "dependencies"] = false ->
    mem_str k ["allOf"; "anyOf"; "oneOf"] = false -> String.eqb k "items" = false ->
    mem_str k ["not"; "additionalProperties"; "additionalItems"] = true -> schema_child k (JObj vm) (JObj vm).

Lemma schema_child_child_of k v x : schema_child k v x -> child_of x v.
Proof. intros H. inversion H; subst; try (apply co_self); try (apply co_elem; assumption). eapply co_value; eassumption. Qed.

(* ---------- the fold lemmas of ExpandSim.v with the domain restricted to sub-schema positions ---------- *)
Section FoldRel2.
Variable W : json -> st -> eres (st * json).
Variable Iv : st -> Prop.
Variable R : json -> json -> Prop.
Variable Dom : json -> Prop.
Hypothesis HW : forall x s s' x', Dom x -> Iv s -> W x s = Done (s', x') -> Iv s' /\ R x x'.

Lemma child_step_rel2 k v s s' v' : (forall x, schema_child k v x -> Dom x) -> Iv s ->
  child_step W k v s = Done (s', v') -> Iv s' /\ rel_child R k v v'.
Proof.
  intros Hd Hs. unfold child_step, rel_child.
  destruct (mem_str k ["definitions"; "properties"; "patternProperties"; "dependencies"]) eqn:E1.
  { destruct v as [| | | |l|vm]; try (intros H; inversion H; subst; split; [exact Hs|reflexivity]).
    destruct (fold_values W vm s []) as [[s1 vm']|sf| |] eqn:Ef; try discriminate. intros H. inversion H; subst.
    destruct (fold_values_rel W Iv R Dom HW _ _ _ _ _ (fun k' x Hin => Hd x (sc_map k vm k' x E1 Hin)) Hs Ef) as [Hs' [l2 [-> F]]].
    split; [exact Hs'|]. exists l2. split; [reflexivity|exact F]. }
  destruct (mem_str k ["allOf"; "anyOf"; "oneOf"]) eqn:E2.
  { destruct v as [| | | |l|vm]; try (intros H; inversion H; subst; split; [exact Hs|reflexivity]).
    destruct (fold_elems W l s []) as [[s1 l']|sf| |] eqn:Ef; try discriminate. intros H. inversion H; subst.
    destruct (fold_elems_rel W Iv R Dom HW _ _ _ _ _ (fun x Hin => Hd x (sc_arr k l x E1 E2 Hin)) Hs Ef) as [Hs' [l2 [-> F]]].
    split; [exact Hs'|]. exists l2. split; [reflexivity|exact F]. }
  destruct (String.eqb k "items") eqn:E3.
  { destruct v as [| | | |l|vm]; try (intros H; inversion H; subst; split; [exact Hs|reflexivity]).
    - destruct (fold_elems W l s []) as [[s1 l']|sf| |] eqn:Ef; try discriminate. intros H. inversion H; subst.
      destruct (fold_elems_rel W Iv R Dom HW _ _ _ _ _ (fun x Hin => Hd x (sc_items_arr k l x E1 E2 E3 Hin)) Hs Ef) as [Hs' [l2 [-> F]]].
      split; [exact Hs'|]. exists l2. split; [reflexivity|exact F].
    - intros H. exact (HW _ _ _ _ (Hd _ (sc_items_obj k vm E1 E2 E3)) Hs H). }
  destruct (mem_str k ["not"; "additionalProperties"; "additionalItems"]) eqn:E4.
  { destruct v as [| | | |l|vm]; try (intros H; inversion H; subst; split; [exact Hs|reflexivity]).
    intros H. exact (HW _ _ _ _ (Hd _ (sc_single k vm E1 E2 E3 E4)) Hs H). }
  intros H; inversion H; subst; split; [exact Hs|reflexivity].
Qed.

Lemma fold_members_rel2 : forall m s out s' m', (forall k v x, In (k, v) m -> schema_child k v x -> Dom x) -> Iv s ->
  fold_members W m s out = Done (s', m') -> Iv s' /\ exists m2, m' = (rev out ++ m2)%list /\ rel_members R m m2.
Proof.
  induction m as [|[k v] r IH]; intros s out s' m' Hd Hs H; cbn [fold_members] in H.
  - inversion H; subst. split; [exact Hs|]. exists []. rewrite app_nil_r. split; [reflexivity|constructor].
  - destruct (child_step W k v s) as [[s1 v']|sf| |] eqn:Ec; try discriminate.
    destruct (child_step_rel2 _ _ _ _ _ (fun x Hx => Hd k v x (or_introl eq_refl) Hx) Hs Ec) as [Hs1 Hc].
    destruct (IH _ _ _ _ (fun k' v0 x Hin Hx => Hd k' v0 x (or_intror Hin) Hx) Hs1 H) as [Hs' [m2 [-> F]]].
    split; [exact Hs'|]. exists ((k, v') :: m2). cbn [rev]. rewrite <- app_assoc.
    split; [reflexivity|constructor; [split; [reflexivity|exact Hc]|exact F]].
Qed.
End FoldRel2.

(* what a member-wise relation that only speaks about the OUTPUT says of the output's sub-schema positions *)
Section OutOnly.
Variable Q : json -> Prop.
Hypothesis HQobj : forall x, Q x -> exists mm, x = JObj mm.
Let R := fun (x x' : json) => match x with JObj _ => Q x' | _ => True end.

Lemma Forall2_in_r {A B} (P : A -> B -> Prop) l l' b : Forall2 P l l' -> In b l' -> exists a, In a l /\ P a b.
Proof.
  intros F. induction F as [|a0 b0 l l' H F IH]; intros Hin; [destruct Hin|].
  destruct Hin as [<-|Hin]; [exists a0; split; [left; reflexivity|exact H]|].
  destruct (IH Hin) as [a [Ha Hp]]. exists a. split; [right; exact Ha|exact Hp].
Qed.

Lemma rel_val_out x x' mm : rel_val R x x' -> x' = JObj mm -> Q x'.
Proof. unfold rel_val, R. destruct x; intros H E; subst; try discriminate; exact H. Qed.
Lemma R_obj m0 x' : R (JObj m0) x' -> Q x'.
Proof. exact (fun H => H). Qed.

Lemma rel_child_out k v v' x' mm : rel_child R k v v' -> schema_child k v' x' -> x' = JObj mm -> Q x'.
Proof.
  intros Hc Hs Ex. unfold rel_child in Hc. inversion Hs as [vm k' x E1 Hin|l x E1 E2 Hin|l x E1 E2 E3 Hin|vm E1 E2 E3|vm E1 E2 E3 E4]; subst.
  - rewrite E1 in Hc. destruct v; try discriminate Hc. destruct Hc as [vm' [Ev F]]. inversion Ev; subst.
    destruct (Forall2_in_r _ _ _ _ F Hin) as [[k0 x0] [_ [_ Hv]]]. cbn [snd] in Hv. eapply rel_val_out; [exact Hv|reflexivity].
  - rewrite E1, E2 in Hc. destruct v; try discriminate Hc. destruct Hc as [l' [Ev F]]. inversion Ev; subst.
    destruct (Forall2_in_r _ _ _ _ F Hin) as [x0 [_ Hv]]. eapply rel_val_out; [exact Hv|reflexivity].
  - rewrite E1, E2, E3 in Hc. destruct v; try discriminate Hc; [|destruct (HQobj _ (R_obj _ _ Hc)) as [m0 Hm0]; discriminate Hm0].
    destruct Hc as [l' [Ev F]]. inversion Ev; subst.
    destruct (Forall2_in_r _ _ _ _ F Hin) as [x0 [_ Hv]]. eapply rel_val_out; [exact Hv|reflexivity].
  - rewrite E1, E2, E3 in Hc. destruct v; try discriminate Hc; try (destruct Hc as [l' [Ev _]]; discriminate). exact Hc.
  - rewrite E1, E2, E3, E4 in Hc. destruct v; try discriminate Hc. exact Hc.
Qed.

Lemma rel_members_out m m' k v' x' mm : rel_members R m m' -> In (k, v') m' -> schema_child k v' x' -> x' = JObj mm -> Q x'.
Proof.
  intros F Hin Hs Ex. destruct (Forall2_in_r _ _ _ _ F Hin) as [[k0 v0] [_ [Hk Hc]]]. cbn [fst snd] in *. subst k0.
  eapply rel_child_out; eassumption.
Qed.
End OutOnly.

(* ---------- the graph, cycles, and the invariants of the walk ---------- *)
Section Cyc.
Variable E : env.
Variable docs : list (string * json).
Variable cwd : string.
Variable OP : opts.
Variable ctx_base : string.
Variable live : option (string * json).
Variable rid : string.
Hypothesis live_served : forall lu ld, live = Some (lu, ld) -> doc_at docs cwd lu = Some ld.
Variable G : string -> json -> Prop.
Hypothesis G_child : forall b m k v x, G b (JObj m) -> has_ref m = false -> In (k, v) m -> child_of x v -> G b x.
Hypothesis G_target : forall b m b' t, G b (JObj m) -> has_ref m = true -> sem_target E docs cwd (get_str "$ref" m) b = Some (b', t) -> G b' t.
Hypothesis G_plain : forall b m, G b (JObj m) -> get_str "id" m = "" /\ assoc "$ref" m <> Some (JStr "").
Hypothesis G_same : forall b m nref, G b (JObj m) -> has_ref m = true -> nuri (get_str "$ref" m) b = POk nref ->
  keeps_resolver (get_str "$ref" m) b nref -> nbase cwd (strip_frag nref) = nbase cwd (strip_frag b).
Hypothesis G_tobj : forall b m b' t, G b (JObj m) -> has_ref m = true -> sem_target E docs cwd (get_str "$ref" m) b = Some (b', t) -> exists mm, t = JObj mm.
Hypothesis strict : o_cont OP = false.
Hypothesis noskip : o_skip OP = false.
(* references the caller had put on the parent stack or in the memo: nothing is known about them *)
Variable bad0 : list string.

Definition holds (b : string) (j : json) (nref : string) : Prop :=
  G b j /\ exists m, j = JObj m /\ has_ref m = true /\ nuri (get_str "$ref" m) b = POk nref.
Definition tgt_of (b : string) (j : json) (bt : string * json) : Prop :=
  exists m, j = JObj m /\ has_ref m = true /\ sem_target E docs cwd (get_str "$ref" m) b = Some bt.

Inductive step : string * json -> string * json -> Prop :=
| st_child b m k v x : has_ref m = false -> In (k, v) m -> schema_child k v x -> step (b, JObj m) (b, x)
| st_ref b m bt : has_ref m = true -> sem_target E docs cwd (get_str "$ref" m) b = Some bt -> step (b, JObj m) bt.
Inductive reach : string * json -> string * json -> Prop :=
| r_refl p : reach p p
| r_step p q r : reach p q -> step q r -> reach p r.

(* some holder of nref has a target from which a holder of nref is reachable *)
Definition on_cycle (nref : string) : Prop :=
  exists b j bt b' j', holds b j nref /\ tgt_of b j bt /\ reach bt (b', j') /\ holds b' j' nref.

Definition PInv (parents : list string) (pos : string * json) : Prop :=
  forall p, In p parents -> In p bad0 \/ exists b j bt, holds b j p /\ tgt_of b j bt /\ reach bt pos.
Definition MInv (s : st) : Prop := forall x, In x (memo s) -> on_cycle x \/ In x bad0.
Definition Inv2 (s : st) : Prop := Inv docs rid s /\ MInv s.

Definition rendered (nref txt : string) : Prop := exists s, rootid s = rid /\ render_kept OP ctx_base s nref = POk txt.

(* what a fully expanded schema looks like: every reference left is the rendering of a reference on a cycle *)
Inductive out_ok : json -> Prop :=
| oo_ref m nref : has_ref m = true -> rendered nref (get_str "$ref" m) -> on_cycle nref \/ In nref bad0 ->
    (exists b j, holds b j nref) -> out_ok (JObj m)
| oo_node m : has_ref m = false -> (forall k v x mm, In (k, v) m -> schema_child k v x -> x = JObj mm -> out_ok x) -> out_ok (JObj m).
Lemma out_ok_obj x : out_ok x -> exists mm, x = JObj mm.
Proof. intros H. inversion H; eexists; reflexivity. Qed.
Definition okv (t t' : json) : Prop := match t with JObj _ => out_ok t' | _ => True end.

Lemma PInv_child parents b m k v x : PInv parents (b, JObj m) -> has_ref m = false -> In (k, v) m -> schema_child k v x -> PInv parents (b, x).
Proof.
  intros HP Hr Hin Hc p Hp. destruct (HP p Hp) as [Hb|[b0 [j0 [bt [H1 [H2 H3]]]]]]; [left; exact Hb|right].
  exists b0, j0, bt. split; [exact H1|split; [exact H2|]]. eapply r_step; [exact H3|]. eapply st_child; eassumption.
Qed.
Lemma PInv_follow parents b m nref bt : G b (JObj m) -> PInv parents (b, JObj m) -> has_ref m = true -> nuri (get_str "$ref" m) b = POk nref ->
  sem_target E docs cwd (get_str "$ref" m) b = Some bt -> PInv (parents ++ [nref])%list bt.
Proof.
  intros Hg HP Hr Hn Ht p Hp. apply in_app_or in Hp. destruct Hp as [Hp|[<-|[]]].
  - destruct (HP p Hp) as [Hb|[b0 [j0 [bt0 [H1 [H2 H3]]]]]]; [left; exact Hb|right].
    exists b0, j0, bt0. split; [exact H1|split; [exact H2|]]. eapply r_step; [exact H3|]. eapply st_ref; eassumption.
  - right. exists b, (JObj m), bt. split; [split; [exact Hg|exists m; auto]|split; [exists m; auto|apply r_refl]].
Qed.

(* resolution does not touch the memo *)
Lemma load_memo s u s' d : load docs cwd s u = Done (s', d) -> memo s' = memo s.
Proof.
  unfold load. destruct (nbase cwd (strip_frag u)) as [n| |]; cbn [pbind]; try discriminate.
  destruct (assoc n (cache s)); [intros H; inversion H; reflexivity|].
  destruct (assoc n docs); [|discriminate]. intros H. inversion H. reflexivity.
Qed.
Lemma finish_memo ref toks s' d s2 t : resolve_finish E ref "Schema" toks s' d = Done (s2, t) -> memo s2 = memo s'.
Proof. intros H. apply finish_fin in H. destruct H as [_ ->]. reflexivity. Qed.
Lemma resolve_memo s rroot ref base s2 t : resolve E docs cwd live s rroot ref base "Schema" = Done (s2, t) -> memo s2 = memo s.
Proof.
  unfold resolve. destruct (new_ref (s2l ref)) as [r| |]; cbn [pbind]; try discriminate.
  set (toks := ptr_tokens (u_frag (r_url r))).
  assert (Hby : pbind s (nuri ref base) (fun full => ebind (load docs cwd s full) (fun sd => resolve_finish E ref "Schema" toks (fst sd) (snd sd))) = Done (s2, t) -> memo s2 = memo s).
  { destruct (nuri ref base) as [full| |]; cbn [pbind]; try discriminate. intros H. apply ebind_done in H. destruct H as [[s' d] [Hl Hf]].
    cbn [fst snd] in Hf. rewrite (finish_memo _ _ _ _ _ _ Hf). exact (load_memo _ _ _ _ Hl). }
  assert (Hvia : forall u, match load docs cwd s u with Done (s', d) => resolve_finish E ref "Schema" toks s' d
                 | _ => pbind s (nuri ref base) (fun full => ebind (load docs cwd s full) (fun sd => resolve_finish E ref "Schema" toks (fst sd) (snd sd))) end = Done (s2, t) -> memo s2 = memo s).
  { intros u. destruct (load docs cwd s u) as [[s' d]|sf| |] eqn:El; try exact Hby.
    intros Hf. rewrite (finish_memo _ _ _ _ _ _ Hf). exact (load_memo _ _ _ _ El). }
  destruct (is_root r || has_fragment_only r); [|exact Hby].
  destruct rroot as [ru|].
  - destruct live as [[lu ld]|]; [|apply Hvia]. destruct (String.eqb ru lu); [|apply Hvia]. apply finish_memo.
  - destruct (String.eqb base ""); [exact Hby|apply Hvia].
Qed.

Lemma is_circular_false s nref parents s1 : is_circular s nref parents = (s1, false) -> s1 = s.
Proof.
  unfold is_circular. destruct (mem_str nref (memo s)); [discriminate|]. destruct (mem_str nref parents); [discriminate|].
  intros H. inversion H. reflexivity.
Qed.

Section WalkCyc.
Variable follow : st -> list string -> option string -> string -> json -> eres (st * json).
Hypothesis Hfollow : forall s ps rr b t s' t', G b t -> Inv2 s -> Coh cwd rr b -> PInv ps (b, t) -> follow s ps rr b t = Done (s', t') ->
  Inv2 s' /\ okv t t'.

Lemma esr_cyc s parents rroot base m s' j' :
  G base (JObj m) -> has_ref m = true -> Inv2 s -> Coh cwd rroot base -> PInv parents (base, JObj m) ->
  expand_schema_ref E docs cwd OP ctx_base live follow s parents rroot base m = Done (s', j') ->
  Inv2 s' /\ out_ok j'.
Proof.
  intros Hg Hr [Hs Hm] Hcoh HP. unfold expand_schema_ref.
  destruct (nuri (get_str "$ref" m) base) as [nref| |] eqn:En; cbn [pbind]; try discriminate.
  pose proof (is_circular_Inv docs rid s nref parents Hs) as Hs1.
  destruct (is_circular s nref parents) as [s1 circ] eqn:Ec. cbn [fst] in Hs1.
  destruct circ.
  - destruct (render_kept OP ctx_base s1 nref) as [txt| |] eqn:Ek; cbn [pbind]; try discriminate.
    intros H. inversion H; subst.
    assert (Hcyc : (on_cycle nref \/ In nref bad0) /\ MInv s').
    { destruct (is_circular_true _ _ _ _ Ec) as [[Hin ->]|[Hin ->]].
      - split; [apply Hm; apply mem_str_In; exact Hin|exact Hm].
      - assert (Hc : on_cycle nref \/ In nref bad0).
        { destruct (HP nref (mem_str_In _ _ Hin)) as [Hb|[b0 [j0 [bt [H1 [H2 H3]]]]]]; [right; exact Hb|left].
          exists b0, j0, bt, base, (JObj m). split; [exact H1|split; [exact H2|split; [exact H3|split; [exact Hg|exists m; auto]]]]. }
        split; [exact Hc|]. intros x Hx. cbn [memo set_memo] in Hx. destruct Hx as [<-|Hx]; [exact Hc|apply Hm; exact Hx]. }
    destruct Hcyc as [Hc Hm']. split; [split; assumption|].
    apply (oo_ref _ nref); [apply has_ref_set| |exact Hc|exists base, (JObj m); split; [exact Hg|exists m; auto]].
    rewrite get_ref_set. exists s'. split; [exact (proj2 Hs1)|exact Ek].
  - pose proof (is_circular_false _ _ _ _ Ec) as ->.
    destruct (resolve E docs cwd live s rroot (get_str "$ref" m) base "Schema") as [[s2 t]|sf| |] eqn:Eres; try discriminate.
    + assert (Hsame := G_same _ _ _ Hg Hr En).
      destruct (resolve_sem E docs cwd live rid live_served _ _ _ _ _ _ _ Hs Hcoh En (fun Hl => Hsame (or_introl Hl)) Eres) as [Ht Hs2].
      intros H. apply ebind_done in H. destruct H as [rc [Htr Hf]].
      pose proof (transitive_coh cwd _ _ _ _ _ _ Hcoh En Hsame Htr) as Hcoh'.
      pose proof (G_target _ _ _ _ Hg Hr Ht) as Hg'.
      assert (Hm2 : MInv s2) by (intros x Hx; rewrite (resolve_memo _ _ _ _ _ _ Eres) in Hx; apply Hm; exact Hx).
      destruct (Hfollow _ _ _ _ _ _ _ Hg' (conj Hs2 Hm2) Hcoh' (PInv_follow _ _ _ _ _ Hg HP Hr En Ht) Hf) as [Hs' Hok].
      split; [exact Hs'|]. destruct (G_tobj _ _ _ _ Hg Hr Ht) as [mm ->]. exact Hok.
    + rewrite strict. discriminate.
Qed.

Theorem walk_cyc : forall j s parents rroot base s' j',
  G base j -> Inv2 s -> Coh cwd rroot base -> PInv parents (base, j) ->
  walk E docs cwd OP ctx_base live follow j s parents rroot base = Done (s', j') ->
  Inv2 s' /\ okv j j'.
Proof.
  intros j. remember (jsize j) as n eqn:En. revert j En.
  induction n as [n IH] using lt_wf_ind. intros j En s parents rroot base s' j' Hg Hs Hcoh HP. subst n.
  destruct j as [| | | |l|m]; try (intros H; inversion H; subst; split; [exact Hs|exact I]).
  cbn [walk okv]. destruct (G_plain _ _ Hg) as [Hid Hne].
  destruct (match assoc "$ref" m with Some (JStr r) => String.eqb r "" | _ => false end) eqn:Eemp.
  { exfalso. destruct (assoc "$ref" m) as [[| | |r| |]|]; try discriminate. apply String.eqb_eq in Eemp. subst r. apply Hne. reflexivity. }
  unfold apply_id. rewrite Hid. cbn [String.eqb].
  destruct (has_ref m) eqn:Hr.
  - rewrite noskip. cbn [negb]. apply esr_cyc; assumption.
  - intros H. apply ebind_done in H. destruct H as [[s1 m1] [Hf H]]. cbn [fst snd] in H. inversion H; subst.
    destruct (fold_members_rel2 (fun x s0 => walk E docs cwd OP ctx_base live follow x s0 parents rroot base) Inv2
                (fun x x' => match x with JObj _ => out_ok x' | _ => True end)
                (fun x => jsize x < jsize (JObj m) /\ G base x /\ PInv parents (base, x))
                (fun x s0 s0' x' Hd Hs0 Hw => IH (jsize x) (proj1 Hd) x eq_refl s0 parents rroot base s0' x' (proj1 (proj2 Hd)) Hs0 Hcoh (proj2 (proj2 Hd)) Hw)
                m s [] s' m1) as [Hs' [m2 [Hm HR]]].
    + intros k v x Hin Hc. split; [|split].
      * eapply Nat.le_lt_trans; [apply child_of_size; apply schema_child_child_of with (k := k); exact Hc|eapply jsize_value; exact Hin].
      * eapply G_child; [exact Hg|exact Hr|exact Hin|apply schema_child_child_of with (k := k); exact Hc].
      * eapply PInv_child; eassumption.
    + exact Hs.
    + exact Hf.
    + cbn [rev app] in Hm. subst m1. split; [exact Hs'|]. apply oo_node.
      * rewrite (rel_members_has_ref _ _ _ HR). exact Hr.
      * intros k v x mm Hin Hc Ex. exact (rel_members_out out_ok out_ok_obj _ _ _ _ _ _ HR Hin Hc Ex).
Qed.
End WalkCyc.

Theorem exp_cyc : forall d s parents rroot base j s' j',
  G base j -> Inv2 s -> Coh cwd rroot base -> PInv parents (base, j) ->
  exp E docs cwd OP ctx_base live d s parents rroot base j = Done (s', j') ->
  Inv2 s' /\ okv j j'.
Proof.
  induction d as [|d IH]; intros s parents rroot base j s' j' Hg Hs Hcoh HP; cbn [exp]; [discriminate|].
  apply walk_cyc; assumption.
Qed.

(* ---------- acyclic graphs end reference-free ---------- *)
Inductive ref_free : json -> Prop :=
| rf_node m : has_ref m = false -> (forall k v x mm, In (k, v) m -> schema_child k v x -> x = JObj mm -> ref_free x) -> ref_free (JObj m).

Theorem acyclic_ref_free : (forall nref, ~ on_cycle nref) -> bad0 = [] -> forall j, out_ok j -> ref_free j.
Proof.
  intros Hac Hb j H. induction H as [m nref Hr _ Hc _|m Hr _ IH].
  - exfalso. destruct Hc as [Hc|Hc]; [exact (Hac nref Hc)|rewrite Hb in Hc; exact Hc].
  - apply rf_node; [exact Hr|exact IH].
Qed.
(* the same when the stacks start with entries that are not references of the graph (ExpandSpec starts the expansion of a
   definition with "#/definitions/<name>" on the stack) *)
Theorem acyclic_ref_free_from : (forall nref, ~ on_cycle nref) -> (forall b j x, holds b j x -> ~ In x bad0) ->
  forall j, out_ok j -> ref_free j.
Proof.
  intros Hac Hb j H. induction H as [m nref Hr _ Hc Hh|m Hr _ IH].
  - exfalso. destruct Hc as [Hc|Hc]; [exact (Hac nref Hc)|]. destruct Hh as [b [j Hh]]. exact (Hb b j nref Hh Hc).
  - apply rf_node; [exact Hr|exact IH].
Qed.

(* ---------- a sufficient condition for acyclicity: a rank that every edge of the graph decreases ---------- *)
Section Ranked.
Variable rk : string * json -> nat.
Hypothesis Hrk : forall b j q, G b j -> step (b, j) q -> rk q < rk (b, j).
(* the target is a function of the canonical reference (two holders of one reference designate the same thing) *)
Hypothesis G_canon : forall b1 m1 b2 m2 nref, G b1 (JObj m1) -> G b2 (JObj m2) -> has_ref m1 = true -> has_ref m2 = true ->
  nuri (get_str "$ref" m1) b1 = POk nref -> nuri (get_str "$ref" m2) b2 = POk nref ->
  sem_target E docs cwd (get_str "$ref" m2) b2 = sem_target E docs cwd (get_str "$ref" m1) b1.

Lemma step_G b j q : G b j -> step (b, j) q -> G (fst q) (snd q).
Proof.
  intros Hg H. inversion H; subst; cbn [fst snd].
  - eapply G_child; [exact Hg|eassumption|eassumption|eapply schema_child_child_of; eassumption].
  - destruct q as [b' t]. eapply G_target; eassumption.
Qed.
Lemma reach_rank p q : G (fst p) (snd p) -> reach p q -> G (fst q) (snd q) /\ rk q <= rk p.
Proof.
  intros Hg H. induction H as [p|p q r H IH Hs]; [split; [exact Hg|lia]|].
  destruct (IH Hg) as [Hgq Hle]. destruct q as [bq jq]. cbn [fst snd] in Hgq.
  split; [eapply step_G; eassumption|]. pose proof (Hrk _ _ _ Hgq Hs). lia.
Qed.

Theorem ranked_acyclic : forall nref, ~ on_cycle nref.
Proof.
  intros nref [b [j [bt [b' [j' [[Hg [m [-> [Hr Hn]]]] [[m0 [Em0 [_ Ht]]] [Hre [Hg' [m' [-> [Hr' Hn']]]]]]]]]]]].
  assert (Em : m0 = m) by (inversion Em0; reflexivity). subst m0.
  assert (Hgt : G (fst bt) (snd bt)).
  { destruct bt as [b1 t1]. cbn [fst snd]. exact (G_target _ _ _ _ Hg Hr Ht). }
  destruct (reach_rank _ _ Hgt Hre) as [_ Hle].
  pose proof (G_canon _ _ _ _ _ Hg Hg' Hr Hr' Hn Hn') as Hsame. rewrite Ht in Hsame.
  pose proof (Hrk _ _ _ Hg' (st_ref _ _ _ Hr' Hsame)) as Hlt. lia.
Qed.
End Ranked.
End Cyc.

(* ---------- the hypotheses decided on a finite list of nodes (G := GN nodes of ExpandSimCheck.v) ---------- *)
Definition schema_kids (k : string) (v : json) : list json :=
  if mem_str k ["definitions"; "properties"; "patternProperties"; "dependencies"] then match v with JObj vm => map snd vm | _ => [] end
  else if mem_str k ["allOf"; "anyOf"; "oneOf"] then match v with JArr l => l | _ => [] end
  else if String.eqb k "items" then match v with JArr l => l | JObj _ => [v] | _ => [] end
  else if mem_str k ["not"; "additionalProperties"; "additionalItems"] then match v with JObj _ => [v] | _ => [] end
  else [].
Lemma schema_child_kids k v x : schema_child k v x -> In x (schema_kids k v).
Proof.
  intros H. unfold schema_kids. inversion H as [vm k' x0 E1 Hin|l x0 E1 E2 Hin|l x0 E1 E2 E3 Hin|vm E1 E2 E3|vm E1 E2 E3 E4]; subst.
  - rewrite E1. apply in_map_iff. exists (k', x). split; [reflexivity|exact Hin].
  - rewrite E1, E2. exact Hin.
  - rewrite E1, E2, E3. exact Hin.
  - rewrite E1, E2, E3. left. reflexivity.
  - rewrite E1, E2, E3, E4. left. reflexivity.
Qed.

Section CycCheck.
Variable E : env.
Variable docs : list (string * json).
Variable cwd : string.
Variable OP : opts.
Variable ctx_base : string.
Variable rid : string.
Variable nodes : list (string * json).

Definition succs (p : string * json) : list (string * json) :=
  match snd p with
  | JObj m => if has_ref m then match sem_target E docs cwd (get_str "$ref" m) (fst p) with Some bt => [bt] | None => [] end
              else flat_map (fun kv => map (fun x => (fst p, x)) (schema_kids (fst kv) (snd kv))) m
  | _ => []
  end.
Lemma step_succs p q : step E docs cwd p q -> In q (succs p).
Proof.
  intros H. inversion H as [b m k v x Hr Hin Hc|b m bt Hr Ht]; subst; unfold succs; cbn [fst snd]; rewrite Hr.
  - apply in_flat_map. exists (k, v). split; [exact Hin|]. cbn [fst snd]. apply in_map. apply schema_child_kids. exact Hc.
  - rewrite Ht. left. reflexivity.
Qed.

Fixpoint rk_in (l : list (string * json)) (p : string * json) : nat :=
  match l with
  | [] => 0
  | x :: r => if String.eqb (fst x) (fst p) && json_seqb (snd x) (snd p) then S (List.length r) else rk_in r p
  end.
Definition rank_check : bool := forallb (fun p => forallb (fun q => Nat.ltb (rk_in nodes q) (rk_in nodes p)) (succs p)) nodes.

Definition pair_ok (p1 p2 : string * json) : bool :=
  match snd p1, snd p2 with
  | JObj m1, JObj m2 =>
      if has_ref m1 && has_ref m2 then
        match nuri (get_str "$ref" m1) (fst p1), nuri (get_str "$ref" m2) (fst p2) with
        | POk n1, POk n2 =>
            if String.eqb n1 n2 then
              match new_ref (s2l (get_str "$ref" m1)), new_ref (s2l (get_str "$ref" m2)) with
              | POk r1, POk r2 => Bool.eqb (String.eqb (get_str "$ref" m2) "") (String.eqb (get_str "$ref" m1) "")
                                  && strs_eqb (ptr_tokens (u_frag (r_url r2))) (ptr_tokens (u_frag (r_url r1)))
              | _, _ => false
              end
            else true
        | _, _ => true
        end
      else true
  | _, _ => true
  end.
Definition canon_check : bool := forallb (fun p1 => forallb (pair_ok p1) nodes) nodes.

Lemma GN_rank : rank_check = true -> forall b j q, GN nodes b j -> step E docs cwd (b, j) q -> rk_in nodes q < rk_in nodes (b, j).
Proof.
  intros Hc b j q Hg Hs. assert (Hin : In (b, j) nodes) by (inversion Hs; subst; exact Hg).
  unfold rank_check in Hc. rewrite forallb_forall in Hc. specialize (Hc _ Hin). rewrite forallb_forall in Hc.
  specialize (Hc _ (step_succs _ _ Hs)). apply Nat.ltb_lt. exact Hc.
Qed.

Lemma GN_canon : canon_check = true -> forall b1 m1 b2 m2 nref, GN nodes b1 (JObj m1) -> GN nodes b2 (JObj m2) ->
  has_ref m1 = true -> has_ref m2 = true -> nuri (get_str "$ref" m1) b1 = POk nref -> nuri (get_str "$ref" m2) b2 = POk nref ->
  sem_target E docs cwd (get_str "$ref" m2) b2 = sem_target E docs cwd (get_str "$ref" m1) b1.
Proof.
  intros Hc b1 m1 b2 m2 nref Hg1 Hg2 Hr1 Hr2 Hn1 Hn2. unfold canon_check in Hc. rewrite forallb_forall in Hc.
  specialize (Hc _ Hg1). rewrite forallb_forall in Hc. specialize (Hc _ Hg2). unfold pair_ok in Hc. cbn [fst snd] in Hc.
  rewrite Hr1, Hr2, Hn1, Hn2, String.eqb_refl in Hc. cbn [andb] in Hc.
  destruct (new_ref (s2l (get_str "$ref" m1))) as [r1| |] eqn:E1; try discriminate.
  destruct (new_ref (s2l (get_str "$ref" m2))) as [r2| |] eqn:E2; try discriminate.
  apply andb_true_iff in Hc. destruct Hc as [H1 H2]. apply Bool.eqb_prop in H1. apply strs_eqb_eq in H2.
  eapply sem_target_eq; [exact E1|exact E2|rewrite Hn1, Hn2; reflexivity|exact H1|exact H2].
Qed.

(* everything a full, strict expansion leaves behind is the rendering of a reference on a cycle of the checked graph *)
Theorem checked_graph_cyc (live : option (string * json)) (bad0 : list string) :
  check_nodes E docs cwd OP ctx_base rid nodes = true ->
  (forall lu ld, live = Some (lu, ld) -> doc_at docs cwd lu = Some ld) ->
  o_cont OP = false -> o_skip OP = false ->
  forall d s parents rroot base j s' j',
    GN nodes base j -> Inv2 E docs cwd rid (GN nodes) bad0 s -> Coh cwd rroot base -> PInv E docs cwd (GN nodes) bad0 parents (base, j) ->
    exp E docs cwd OP ctx_base live d s parents rroot base j = Done (s', j') ->
    Inv2 E docs cwd rid (GN nodes) bad0 s' /\ okv E docs cwd OP ctx_base rid (GN nodes) bad0 j j'.
Proof.
  intros Hck Hlive Hstrict Hfull.
  apply (exp_cyc E docs cwd OP ctx_base live rid Hlive (GN nodes)
           (GN_child E docs cwd OP ctx_base rid nodes Hck) (GN_target E docs cwd OP ctx_base rid nodes Hck)
           (GN_plain E docs cwd OP ctx_base rid nodes Hck) (GN_same E docs cwd OP ctx_base rid nodes Hck)
           (GN_target_obj E docs cwd OP ctx_base rid nodes Hck) Hstrict Hfull bad0).
Qed.

Theorem checked_graph_acyclic :
  check_nodes E docs cwd OP ctx_base rid nodes = true -> rank_check = true -> canon_check = true ->
  forall nref, ~ on_cycle E docs cwd (GN nodes) nref.
Proof.
  intros Hck Hrank Hcanon.
  exact (ranked_acyclic E docs cwd (GN nodes) (GN_child E docs cwd OP ctx_base rid nodes Hck) (GN_target E docs cwd OP ctx_base rid nodes Hck)
           (rk_in nodes) (GN_rank Hrank) (GN_canon Hcanon)).
Qed.
End CycCheck.

(* a plain computation that orders the nodes of an acyclic graph so that every edge points forward (judged by rank_check) *)
Fixpoint topo (E : env) (docs : list (string * json)) (cwd : string) (fuel : nat) (rest placed : list (string * json)) : list (string * json) :=
  match fuel with
  | 0 => (rest ++ placed)%list
  | S f =>
      let isin (q : string * json) (l : list (string * json)) := existsb (fun p => String.eqb (fst p) (fst q) && json_seqb (snd p) (snd q)) l in
      let ready (p : string * json) := forallb (fun q => match snd q with JObj _ => isin q placed | _ => true end) (succs E docs cwd p) in
      match partition ready rest with
      | ([], _) => (rest ++ placed)%list
      | (r, nr) => topo E docs cwd f nr (r ++ placed)%list
      end
  end.
