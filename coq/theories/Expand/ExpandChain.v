(* Chains of parameter / response / path-item references END (C02, element level, closing the gap left by
   ExpandElem.deref_sem, which assumes that the chain was not cut as circular).

   deref cuts a chain when the canonical reference of a hop is in the memo of references found circular (shared with
   the schema expander) or on the stack of the chain itself.  Neither happens on a well-formed graph of elements:
   - [fresh]: the canonical references of element chains are not references the memo can hold (the memo only holds
     references of the schema graph that lie on a cycle, or entries it had before the run: ExpandCycle.MInv);
   - [GE_rank]: the chain is well-founded - a rank on canonical references decreases hop by hop (decided by a checker
     for a concrete graph).
   [deref_ends]: under these hypotheses a chain that returns returns a holder without `$ref`, and leaves the memo as
   it was. *)
From Coq Require Import List String Ascii Bool Arith Lia.
From Spec Require Import Base.Json Base.JsonFacts Base.Url Base.UrlFacts Codec.Types Codec.Codec
  Expand.Expand Expand.ExpandFacts Expand.ExpandSim Expand.ExpandSimCheck Expand.ExpandCycle Expand.ExpandElem.
Import ListNotations.
Local Open Scope string_scope.

Section Chain.
Variable E : env.
Variable docs : list (string * json).
Variable cwd : string.
Variable OP : opts.
Variable live : option (string * json).
Variable rid : string.
Hypothesis live_served : forall lu ld, live = Some (lu, ld) -> doc_at docs cwd lu = Some ld.
Hypothesis strict : o_cont OP = false.

(* resolution does not touch the memo, whatever the kind *)
Lemma finish_memo_k kind ref toks s' d s2 t : resolve_finish E ref kind toks s' d = Done (s2, t) -> memo s2 = memo s'.
Proof. intros H. apply finish_fin_k in H. destruct H as [_ ->]. reflexivity. Qed.
Lemma resolve_memo_k kind s rroot ref base s2 t : resolve E docs cwd live s rroot ref base kind = Done (s2, t) -> memo s2 = memo s.
Proof.
  unfold resolve. destruct (new_ref (s2l ref)) as [r| |]; cbn [pbind]; try discriminate.
  set (toks := ptr_tokens (u_frag (r_url r))).
  assert (Hby : pbind s (nuri ref base) (fun full => ebind (load docs cwd s full) (fun sd => resolve_finish E ref kind toks (fst sd) (snd sd))) = Done (s2, t) -> memo s2 = memo s).
  { destruct (nuri ref base) as [full| |]; cbn [pbind]; try discriminate. intros H. apply ebind_done in H. destruct H as [[s' d] [Hl Hf]].
    cbn [fst snd] in Hf. rewrite (finish_memo_k _ _ _ _ _ _ _ Hf). exact (load_memo _ _ _ _ _ _ Hl). }
  assert (Hvia : forall u, match load docs cwd s u with Done (s', d) => resolve_finish E ref kind toks s' d
                 | _ => pbind s (nuri ref base) (fun full => ebind (load docs cwd s full) (fun sd => resolve_finish E ref kind toks (fst sd) (snd sd))) end = Done (s2, t) -> memo s2 = memo s).
  { intros u. destruct (load docs cwd s u) as [[s' d]|sf| |] eqn:El; try exact Hby.
    intros Hf. rewrite (finish_memo_k _ _ _ _ _ _ _ Hf). exact (load_memo _ _ _ _ _ _ El). }
  destruct (is_root r || has_fragment_only r); [|exact Hby].
  destruct rroot as [ru|].
  - destruct live as [[lu ld]|]; [|apply Hvia]. destruct (String.eqb ru lu); [|apply Hvia]. apply finish_memo_k.
  - destruct (String.eqb base ""); [exact Hby|apply Hvia].
Qed.

Variable GE : string -> string -> list (string * json) -> Prop.
Hypothesis GE_holder : forall kind b m, GE kind b m -> get_str "$ref" m <> "" -> remove_key "$ref" m = [].
Hypothesis GE_target : forall kind b m b1 tm, GE kind b m -> get_str "$ref" m <> "" ->
  sem_target_k E docs cwd kind (get_str "$ref" m) b = Some (b1, JObj tm) -> GE kind b1 tm /\ merge_over tm [] = tm.
Hypothesis GE_same : forall kind b m nref, GE kind b m -> get_str "$ref" m <> "" -> nuri (get_str "$ref" m) b = POk nref ->
  keeps_resolver (get_str "$ref" m) b nref -> nbase cwd (strip_frag nref) = nbase cwd (strip_frag b).

(* the canonical references of the chains *)
Definition chain_ref (x : string) : Prop :=
  exists kind b m, GE kind b m /\ get_str "$ref" m <> "" /\ nuri (get_str "$ref" m) b = POk x.

(* what the memo may hold *)
Variable MD : string -> Prop.
Hypothesis fresh : forall x, chain_ref x -> ~ MD x.
Definition MemoIn (s : st) : Prop := forall x, In x (memo s) -> MD x.

(* the chains are well-founded *)
Variable rk : string -> nat.
Hypothesis GE_rank : forall kind b m nref b1 tm nref1, GE kind b m -> get_str "$ref" m <> "" ->
  nuri (get_str "$ref" m) b = POk nref -> sem_target_k E docs cwd kind (get_str "$ref" m) b = Some (b1, JObj tm) ->
  get_str "$ref" tm <> "" -> nuri (get_str "$ref" tm) b1 = POk nref1 -> rk nref1 < rk nref.

Definition above (parents : list string) (b : string) (m : list (string * json)) : Prop :=
  forall p nref, In p parents -> get_str "$ref" m <> "" -> nuri (get_str "$ref" m) b = POk nref -> rk nref < rk p.

Theorem deref_ends kind : forall fuel s parents rroot base m s' m1 rr1 b1,
  GE kind base m -> Inv docs rid s -> Coh cwd rroot base -> MemoIn s -> above parents base m ->
  deref E docs cwd OP live fuel s parents rroot base kind m = Done (s', m1, rr1, b1) ->
  get_str "$ref" m1 = "" /\ memo s' = memo s.
Proof.
  induction fuel as [|f IH]; intros s parents rroot base m s' m1 rr1 b1 Hg Hs Hcoh Hmemo Hab H; cbn [deref] in H.
  - destruct (String.eqb (get_str "$ref" m) "") eqn:Ec; [|discriminate].
    inversion H; subst. apply String.eqb_eq in Ec. split; [exact Ec|reflexivity].
  - destruct (String.eqb (get_str "$ref" m) "") eqn:Ec.
    { inversion H; subst. apply String.eqb_eq in Ec. split; [exact Ec|reflexivity]. }
    apply String.eqb_neq in Ec.
    destruct (nuri (get_str "$ref" m) base) as [nref| |] eqn:En; cbn [pbind] in H; try discriminate.
    destruct (is_circular s nref parents) as [s1 circ] eqn:Eci.
    destruct circ.
    { exfalso. apply is_circular_true in Eci. destruct Eci as [[Hm _]|[Hp _]].
      - apply mem_str_In in Hm. apply (fresh nref); [exists kind, base, m; auto|apply Hmemo; exact Hm].
      - apply mem_str_In in Hp. pose proof (Hab nref nref Hp Ec En). lia. }
    pose proof (is_circular_false _ _ _ _ Eci) as ->.
    pose proof (GE_same _ _ _ _ Hg Ec En) as Hsame.
    destruct (resolve E docs cwd live s rroot (get_str "$ref" m) base kind) as [[s2 t]|sf| |] eqn:Eres; try discriminate.
    + pose proof (resolve_memo_k _ _ _ _ _ _ _ Eres) as Hm2.
      destruct (resolve_sem_k E docs cwd live rid live_served _ _ _ _ _ _ _ _ Hs Hcoh En (fun Hl => Hsame (or_introl Hl)) Eres) as [Ht Hs2].
      destruct t as [| | | | |tm]; try discriminate.
      apply ebind_done in H. destruct H as [rc [Htr H]].
      destruct (transitive_next _ _ _ _ _ _ _ Hcoh En Hsame Htr) as [Hnb Hcoh']. rewrite Hnb in H.
      rewrite (GE_holder _ _ _ Hg Ec) in H.
      destruct (GE_target _ _ _ _ _ Hg Ec Ht) as [Hg' Hmerge]. unfold merge_over in Hmerge. rewrite Hmerge in H.
      assert (Hmemo2 : MemoIn s2) by (intros x Hx; apply Hmemo; rewrite <- Hm2; exact Hx).
      assert (Hab' : above (parents ++ [nref])%list (next_base (get_str "$ref" m) base nref) tm).
      { intros p nref1 Hp Hr1 Hn1. pose proof (GE_rank _ _ _ _ _ _ _ Hg Ec En Ht Hr1 Hn1) as Hlt.
        apply in_app_or in Hp. destruct Hp as [Hp|[<-|[]]]; [|exact Hlt].
        pose proof (Hab p nref Hp Ec En). lia. }
      destruct (IH _ _ _ _ _ _ _ _ _ Hg' Hs2 Hcoh' Hmemo2 Hab' H) as [Hend Hm']. split; [exact Hend|rewrite Hm'; exact Hm2].
    + rewrite strict in H. discriminate.
Qed.

(* ---------- ... and, when every hop is resolvable and the fuel exceeds the rank, the chain RETURNS ---------- *)
Lemma finish_complete_k kind ref toks s' d t : fin_k E kind ref toks d = Some t -> resolve_finish E ref kind toks s' d = Done (set_dfail s' false, t).
Proof.
  unfold fin_k, resolve_finish. destruct (if String.eqb ref "" then Some d else ptr_get toks d) as [[| | | | |mm]|]; try discriminate.
  destruct (norm E false (JObj mm) (TNamed kind)); try discriminate. intros H. inversion H. reflexivity.
Qed.
Lemma load_complete_k s u d : Inv docs rid s -> doc_at docs cwd u = Some d -> exists s', load docs cwd s u = Done (s', d).
Proof.
  intros [Hc Hr] Hd. unfold load, doc_at in *. destruct (nbase cwd (strip_frag u)) as [n| |]; try discriminate. cbn [pbind].
  destruct (assoc n (cache s)) as [d0|] eqn:Ec.
  - rewrite (Hc _ _ Ec) in Hd. inversion Hd; subst. eexists; reflexivity.
  - rewrite Hd. eexists; reflexivity.
Qed.
Lemma resolve_complete_k kind s rroot ref base nref b1 t :
  Inv docs rid s -> Coh cwd rroot base -> nuri ref base = POk nref ->
  (is_local ref = true -> nbase cwd (strip_frag nref) = nbase cwd (strip_frag base)) ->
  sem_target_k E docs cwd kind ref base = Some (b1, t) ->
  exists s2, resolve E docs cwd live s rroot ref base kind = Done (s2, t).
Proof.
  intros Hs Hcoh Hn Hloc Ht. unfold sem_target_k in Ht. unfold resolve, is_local in *. rewrite Hn in *.
  destruct (new_ref (s2l ref)) as [r| |]; try discriminate. cbn [pbind].
  destruct (doc_at docs cwd nref) as [d|] eqn:Hd; try discriminate.
  destruct (fin_k E kind ref (ptr_tokens (u_frag (r_url r))) d) as [t0|] eqn:Hf; try discriminate. inversion Ht; subst t0 b1.
  set (toks := ptr_tokens (u_frag (r_url r))) in *.
  assert (Hby : exists s2, ebind (load docs cwd s nref) (fun sd => resolve_finish E ref kind toks (fst sd) (snd sd)) = Done (s2, t)).
  { destruct (load_complete_k s nref d Hs Hd) as [s' Hl]. rewrite Hl. cbn [ebind fst snd]. rewrite (finish_complete_k _ _ _ s' _ _ Hf). eexists; reflexivity. }
  assert (Hru : forall ru, rroot = Some ru -> doc_at docs cwd ru = doc_at docs cwd base) by (intros ru Hr; unfold doc_at; rewrite (Hcoh ru Hr); reflexivity).
  destruct (is_root r || has_fragment_only r) eqn:El; [|exact Hby].
  assert (Hdb : doc_at docs cwd base = Some d) by (unfold doc_at in *; rewrite <- (Hloc eq_refl); exact Hd).
  destruct rroot as [ru|].
  - assert (Hvia : exists s2, match load docs cwd s ru with Done (s', d0) => resolve_finish E ref kind toks s' d0
                    | _ => ebind (load docs cwd s nref) (fun sd => resolve_finish E ref kind toks (fst sd) (snd sd)) end = Done (s2, t)).
    { assert (Hdr : doc_at docs cwd ru = Some d) by (rewrite (Hru ru eq_refl); exact Hdb).
      destruct (load_complete_k s ru d Hs Hdr) as [s' Hl]. rewrite Hl. rewrite (finish_complete_k _ _ _ s' _ _ Hf). eexists; reflexivity. }
    destruct live as [[lu ld]|]; [|exact Hvia]. destruct (String.eqb ru lu) eqn:Eru; [|exact Hvia].
    apply String.eqb_eq in Eru. subst lu. pose proof (live_served ru ld eq_refl) as Hl. rewrite (Hru ru eq_refl), Hdb in Hl. inversion Hl; subst ld.
    rewrite (finish_complete_k _ _ _ s _ _ Hf). eexists; reflexivity.
  - destruct (String.eqb base ""); [exact Hby|].
    destruct (load_complete_k s base d Hs Hdb) as [s' Hl]. rewrite Hl. rewrite (finish_complete_k _ _ _ s' _ _ Hf). eexists; reflexivity.
Qed.
Lemma transitive_complete_k s rroot base ref nref br : (exists r, new_ref (s2l ref) = POk r) -> nuri ref base = POk nref -> new_ref (s2l base) = POk br ->
  exists rc, transitive s rroot base ref = Done rc.
Proof.
  intros [r Hr] Hn Hb. unfold transitive. rewrite Hr, Hn, Hb. cbn [pbind].
  destruct (is_root r || has_fragment_only r); [eexists; reflexivity|].
  destruct (str_prefix (l2s (ref_string br)) nref); eexists; reflexivity.
Qed.

(* every hop designates an element, and its base is a location *)
Hypothesis GE_resolvable : forall kind b m, GE kind b m -> get_str "$ref" m <> "" ->
  exists nref b1 tm br, nuri (get_str "$ref" m) b = POk nref /\
    sem_target_k E docs cwd kind (get_str "$ref" m) b = Some (b1, JObj tm) /\ new_ref (s2l b) = POk br.

Theorem deref_succeeds kind : forall fuel s parents rroot base m,
  GE kind base m -> Inv docs rid s -> Coh cwd rroot base -> MemoIn s -> above parents base m ->
  (forall nref, get_str "$ref" m <> "" -> nuri (get_str "$ref" m) base = POk nref -> rk nref < fuel) ->
  exists s' m1 rr1 b1, deref E docs cwd OP live fuel s parents rroot base kind m = Done (s', m1, rr1, b1).
Proof.
  induction fuel as [|f IH]; intros s parents rroot base m Hg Hs Hcoh Hmemo Hab Hfuel; cbn [deref].
  - destruct (String.eqb (get_str "$ref" m) "") eqn:Ec; [do 4 eexists; reflexivity|].
    apply String.eqb_neq in Ec. destruct (GE_resolvable _ _ _ Hg Ec) as [nref [b1 [tm [br [En _]]]]]. pose proof (Hfuel nref Ec En). lia.
  - destruct (String.eqb (get_str "$ref" m) "") eqn:Ec; [do 4 eexists; reflexivity|].
    apply String.eqb_neq in Ec. destruct (GE_resolvable _ _ _ Hg Ec) as [nref [b1 [tm [br [En [Ht Hbr]]]]]].
    rewrite En. cbn [pbind].
    destruct (is_circular s nref parents) as [s1 circ] eqn:Eci.
    destruct circ.
    { exfalso. apply is_circular_true in Eci. destruct Eci as [[Hm _]|[Hp _]].
      - apply mem_str_In in Hm. apply (fresh nref); [exists kind, base, m; auto|apply Hmemo; exact Hm].
      - apply mem_str_In in Hp. pose proof (Hab nref nref Hp Ec En). lia. }
    pose proof (is_circular_false _ _ _ _ Eci) as ->.
    pose proof (GE_same _ _ _ _ Hg Ec En) as Hsame.
    destruct (resolve_complete_k kind s rroot (get_str "$ref" m) base nref b1 (JObj tm) Hs Hcoh En (fun Hl => Hsame (or_introl Hl)) Ht) as [s2 Eres].
    rewrite Eres.
    pose proof (resolve_memo_k _ _ _ _ _ _ _ Eres) as Hm2.
    destruct (resolve_sem_k E docs cwd live rid live_served _ _ _ _ _ _ _ _ Hs Hcoh En (fun Hl => Hsame (or_introl Hl)) Eres) as [Ht' Hs2].
    assert (Hr : exists r, new_ref (s2l (get_str "$ref" m)) = POk r).
    { unfold sem_target_k in Ht. destruct (new_ref (s2l (get_str "$ref" m))) as [r| |]; try discriminate. exists r. reflexivity. }
    destruct (transitive_complete_k s2 rroot base _ _ _ Hr En Hbr) as [rc Htr]. rewrite Htr. cbn [ebind].
    destruct (transitive_next _ _ _ _ _ _ _ Hcoh En Hsame Htr) as [Hnb Hcoh']. rewrite Hnb.
    rewrite (GE_holder _ _ _ Hg Ec).
    destruct (GE_target _ _ _ _ _ Hg Ec Ht') as [Hg' Hmerge]. unfold merge_over in Hmerge. rewrite Hmerge.
    assert (Hmemo2 : MemoIn s2) by (intros x Hx; apply Hmemo; rewrite <- Hm2; exact Hx).
    assert (Hab' : above (parents ++ [nref])%list (next_base (get_str "$ref" m) base nref) tm).
    { intros p nref1 Hp Hr1 Hn1. pose proof (GE_rank _ _ _ _ _ _ _ Hg Ec En Ht' Hr1 Hn1) as Hlt.
      apply in_app_or in Hp. destruct Hp as [Hp|[<-|[]]]; [|exact Hlt].
      pose proof (Hab p nref Hp Ec En). lia. }
    apply (IH _ _ _ _ _ Hg' Hs2 Hcoh' Hmemo2 Hab').
    intros nref1 Hr1 Hn1. pose proof (GE_rank _ _ _ _ _ _ _ Hg Ec En Ht' Hr1 Hn1). pose proof (Hfuel nref Ec En). lia.
Qed.
End Chain.
