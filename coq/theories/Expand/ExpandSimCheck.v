(* A decision procedure for the well-formedness conditions of ExpandSim.v on a FINITE reference graph given as a list of
   located schema objects: [check_nodes] computes, and [check_nodes_sound] shows that a positive answer establishes every
   hypothesis of the bisimulation theorem for G := "is one of the listed nodes".  It is what makes the theorem usable on
   concrete graphs: the premises are discharged by computation ([vm_compute]), in the example at the end of this file and,
   through the extracted driver, on the reference graphs the correspondence check generates. *)
From Coq Require Import List String Ascii Bool Arith ZArith Lia.
From Spec Require Import Base.Json Base.JsonFacts Base.Url Base.UrlFacts Codec.Types Codec.Codec Expand.Expand Expand.ExpandFacts Expand.ExpandSim.
Import ListNotations.
Local Open Scope string_scope.

(* ---------- syntactic equality of JSON trees ---------- *)
Fixpoint json_seqb (a b : json) {struct a} : bool :=
  match a, b with
  | JNull, JNull => true
  | JBool x, JBool y => Bool.eqb x y
  | JNum m e, JNum m' e' => Z.eqb m m' && Z.eqb e e'
  | JStr s, JStr t => String.eqb s t
  | JArr l, JArr l' =>
      (fix go (l l' : list json) : bool :=
         match l, l' with
         | [], [] => true
         | x :: r, y :: r' => json_seqb x y && go r r'
         | _, _ => false
         end) l l'
  | JObj m, JObj m' =>
      (fix go (m m' : list (string * json)) : bool :=
         match m, m' with
         | [], [] => true
         | (k, x) :: r, (k', y) :: r' => String.eqb k k' && json_seqb x y && go r r'
         | _, _ => false
         end) m m'
  | _, _ => false
  end.

Lemma json_seqb_eq_n : forall n a, jsize a <= n -> forall b, json_seqb a b = true -> a = b.
Proof.
  induction n as [|n IH]; intros a Ha b H.
  - destruct a; cbn [jsize] in Ha; lia.
  - destruct a as [|x|m e|s|l|m]; destruct b as [|y|m' e'|t|l'|m']; cbn [json_seqb] in H; try discriminate.
    + reflexivity.
    + apply Bool.eqb_prop in H. subst. reflexivity.
    + apply andb_true_iff in H. destruct H as [H1 H2]. apply Z.eqb_eq in H1, H2. subst. reflexivity.
    + apply String.eqb_eq in H. subst. reflexivity.
    + f_equal. assert (Hl : forall x, In x l -> jsize x <= n) by (intros x Hx; pose proof (jsize_elem l x Hx); lia).
      clear Ha. revert l' H. induction l as [|x r IHl]; intros [|y r'] H; try discriminate; [reflexivity|].
      apply andb_true_iff in H. destruct H as [H1 H2]. f_equal.
      * apply IH; [apply Hl; left; reflexivity|exact H1].
      * apply IHl; [intros z Hz; apply Hl; right; exact Hz|exact H2].
    + f_equal. assert (Hl : forall k x, In (k, x) m -> jsize x <= n) by (intros k x Hx; pose proof (jsize_value m k x Hx); lia).
      clear Ha. revert m' H. induction m as [|[k x] r IHl]; intros [|[k' y] r'] H; try discriminate; [reflexivity|].
      apply andb_true_iff in H. destruct H as [H12 H3]. apply andb_true_iff in H12. destruct H12 as [H1 H2].
      apply String.eqb_eq in H1. subst k'. f_equal.
      * f_equal. apply IH; [eapply Hl; left; reflexivity|exact H2].
      * apply IHl; [intros k0 z Hz; eapply Hl; right; exact Hz|exact H3].
Qed.
Lemma json_seqb_eq a b : json_seqb a b = true -> a = b.
Proof. apply (json_seqb_eq_n (jsize a)). lia. Qed.

Definition presult_eqb (p q : presult string) : bool :=
  match p, q with
  | POk a, POk b => String.eqb a b
  | PErr, PErr => true
  | PUnsupported, PUnsupported => true
  | _, _ => false
  end.
Lemma presult_eqb_eq p q : presult_eqb p q = true -> p = q.
Proof. destruct p, q; cbn; try discriminate; try reflexivity. intros H. apply String.eqb_eq in H. subst. reflexivity. Qed.

Fixpoint strs_eqb (a b : list string) : bool :=
  match a, b with
  | [], [] => true
  | x :: r, y :: r' => String.eqb x y && strs_eqb r r'
  | _, _ => false
  end.
Lemma strs_eqb_eq : forall a b, strs_eqb a b = true -> a = b.
Proof.
  induction a as [|x r IH]; intros [|y r'] H; try discriminate; [reflexivity|].
  cbn in H. apply andb_true_iff in H. destruct H as [H1 H2]. apply String.eqb_eq in H1. subst. f_equal. apply IH. exact H2.
Qed.

Definition kids (v : json) : list json := v :: match v with JArr l => l | JObj vm => map snd vm | _ => [] end.
Lemma child_of_kids x v : child_of x v -> In x (kids v).
Proof.
  intros H. inversion H; subst; unfold kids.
  - left. reflexivity.
  - right. assumption.
  - right. apply in_map_iff. exists (k, x). split; [reflexivity|assumption].
Qed.

Section Check.
Variable E : env.
Variable docs : list (string * json).
Variable cwd : string.
Variable OP : opts.
Variable ctx_base : string.
Variable rid : string.
Variable nodes : list (string * json).

Definition GN (b : string) (j : json) : Prop := match j with JObj _ => In (b, j) nodes | _ => True end.
Definition gmem (b : string) (x : json) : bool :=
  match x with JObj _ => existsb (fun p => String.eqb (fst p) b && json_seqb (snd p) x) nodes | _ => true end.
Lemma gmem_GN b x : gmem b x = true -> GN b x.
Proof.
  unfold gmem, GN. destruct x; auto. intros H. apply existsb_exists in H. destruct H as [[b' j'] [Hin H]].
  cbn [fst snd] in H. apply andb_true_iff in H. destruct H as [H1 H2]. apply String.eqb_eq in H1. apply json_seqb_eq in H2. subst. exact Hin.
Qed.

Definition keepsb (ref b nref : string) : bool :=
  is_local ref || match new_ref (s2l b) with POk br => str_prefix (l2s (ref_string br)) nref | _ => false end.
Lemma keeps_keepsb ref b nref : keeps_resolver ref b nref -> keepsb ref b nref = true.
Proof.
  unfold keeps_resolver, keepsb. intros [H|[br [H1 H2]]]; [rewrite H; reflexivity|]. rewrite H1, H2. apply orb_true_r.
Qed.

Definition s0 : st := mkSt [] [] [] rid false.
Lemma render_kept_state s nref : rootid s = rid -> render_kept OP ctx_base s nref = render_kept OP ctx_base s0 nref.
Proof. intros H. unfold render_kept. cbn [rootid s0]. rewrite H. reflexivity. Qed.
Lemma render_rebased_state s nref : rootid s = rid -> render_rebased ctx_base s nref = render_rebased ctx_base s0 nref.
Proof. intros H. unfold render_rebased. cbn [rootid s0]. rewrite H. reflexivity. Qed.

(* the rendered text of a kept reference: same canonical URL from the root location, same pointer *)
Definition check_txt (ref : string) (r : Url.ref) (nref : string) (p : presult string) : bool :=
  match p with
  | POk txt => match new_ref (s2l txt) with
               | POk r' => presult_eqb (nuri txt ctx_base) (POk nref)
                           && Bool.eqb (String.eqb txt "") (String.eqb ref "")
                           && strs_eqb (ptr_tokens (u_frag (r_url r'))) (ptr_tokens (u_frag (r_url r)))
               | _ => false
               end
  | _ => true
  end.

Lemma sem_target_eq ref base ref' base' r r' :
  new_ref (s2l ref) = POk r -> new_ref (s2l ref') = POk r' -> nuri ref' base' = nuri ref base ->
  String.eqb ref' "" = String.eqb ref "" -> ptr_tokens (u_frag (r_url r')) = ptr_tokens (u_frag (r_url r)) ->
  sem_target E docs cwd ref' base' = sem_target E docs cwd ref base.
Proof. intros H1 H2 H3 H4 H5. unfold sem_target, fin. rewrite H1, H2, H3, H4, H5. reflexivity. Qed.

Lemma check_txt_ok ref base r nref p txt : new_ref (s2l ref) = POk r -> nuri ref base = POk nref ->
  check_txt ref r nref p = true -> p = POk txt -> sem_target E docs cwd txt ctx_base = sem_target E docs cwd ref base.
Proof.
  intros Hr Hn Hc ->. unfold check_txt in Hc. destruct (new_ref (s2l txt)) as [r'| |] eqn:Er'; try discriminate.
  apply andb_true_iff in Hc. destruct Hc as [Hc H3]. apply andb_true_iff in Hc. destruct Hc as [H1 H2].
  apply presult_eqb_eq in H1. apply Bool.eqb_prop in H2. apply strs_eqb_eq in H3.
  eapply sem_target_eq; [exact Hr|exact Er'|rewrite H1, Hn; reflexivity|exact H2|exact H3].
Qed.

Definition check_node (p : string * json) : bool :=
  let b := fst p in
  match snd p with
  | JObj m =>
      String.eqb (get_str "id" m) ""
      && negb (match assoc "$ref" m with Some (JStr r) => String.eqb r "" | _ => false end)
      && (if has_ref m then
            let ref := get_str "$ref" m in
            match nuri ref b with
            | POk nref =>
                match new_ref (s2l ref) with
                | POk r =>
                    (if keepsb ref b nref then presult_eqb (nbase cwd (strip_frag nref)) (nbase cwd (strip_frag b)) else true)
                    && check_txt ref r nref (render_kept OP ctx_base s0 nref)
                    && check_txt ref r nref (render_rebased ctx_base s0 nref)
                    && match sem_target E docs cwd ref b with
                       | Some (b', t) => match t with JObj _ => gmem b' t | _ => false end   (* a target is an object *)
                       | None => true
                       end
                | _ => false
                end
            | _ => true
            end
          else forallb (fun kv => forallb (gmem b) (kids (snd kv))) m)
  | _ => true
  end.
Definition check_nodes : bool := forallb check_node nodes.

Lemma check_nodes_node b m : check_nodes = true -> GN b (JObj m) -> check_node (b, JObj m) = true.
Proof. unfold check_nodes, GN. intros H Hin. rewrite forallb_forall in H. apply H. exact Hin. Qed.

Section Sound.
Hypothesis Hck : check_nodes = true.

Lemma GN_plain b m : GN b (JObj m) -> get_str "id" m = "" /\ assoc "$ref" m <> Some (JStr "").
Proof.
  intros Hg. pose proof (check_nodes_node b m Hck Hg) as H. unfold check_node in H. cbn [fst snd] in H.
  apply andb_true_iff in H. destruct H as [H _]. apply andb_true_iff in H. destruct H as [H1 H2].
  apply String.eqb_eq in H1. split; [exact H1|]. intros Hc. rewrite Hc in H2. discriminate.
Qed.

Lemma GN_child b m k v x : GN b (JObj m) -> has_ref m = false -> In (k, v) m -> child_of x v -> GN b x.
Proof.
  intros Hg Hr Hin Hc. pose proof (check_nodes_node b m Hck Hg) as H. unfold check_node in H. cbn [fst snd] in H.
  apply andb_true_iff in H. destruct H as [_ H]. rewrite Hr in H. rewrite forallb_forall in H.
  specialize (H (k, v) Hin). cbn [snd] in H. rewrite forallb_forall in H. apply gmem_GN. apply H. apply child_of_kids. exact Hc.
Qed.

(* the checks made on a node that holds a reference *)
Lemma GN_ref b m nref : GN b (JObj m) -> has_ref m = true -> nuri (get_str "$ref" m) b = POk nref ->
  exists r, new_ref (s2l (get_str "$ref" m)) = POk r
    /\ (keepsb (get_str "$ref" m) b nref = true -> nbase cwd (strip_frag nref) = nbase cwd (strip_frag b))
    /\ check_txt (get_str "$ref" m) r nref (render_kept OP ctx_base s0 nref) = true
    /\ check_txt (get_str "$ref" m) r nref (render_rebased ctx_base s0 nref) = true.
Proof.
  intros Hg Hr Hn. pose proof (check_nodes_node b m Hck Hg) as H. unfold check_node in H. cbn [fst snd] in H.
  apply andb_true_iff in H. destruct H as [_ H]. rewrite Hr, Hn in H.
  destruct (new_ref (s2l (get_str "$ref" m))) as [r| |]; try discriminate. exists r. split; [reflexivity|].
  apply andb_true_iff in H. destruct H as [H _]. apply andb_true_iff in H. destruct H as [H H3].
  apply andb_true_iff in H. destruct H as [H1 H2]. split; [|split; assumption].
  intros Hk. rewrite Hk in H1. apply presult_eqb_eq. exact H1.
Qed.

Lemma GN_target b m b' t : GN b (JObj m) -> has_ref m = true -> sem_target E docs cwd (get_str "$ref" m) b = Some (b', t) -> GN b' t.
Proof.
  intros Hg Hr Ht. pose proof (check_nodes_node b m Hck Hg) as H. unfold check_node in H. cbn [fst snd] in H.
  apply andb_true_iff in H. destruct H as [_ H]. rewrite Hr in H.
  destruct (nuri (get_str "$ref" m) b) as [nref| |] eqn:En; try (unfold sem_target in Ht; rewrite En in Ht; destruct (new_ref (s2l (get_str "$ref" m))); discriminate).
  destruct (new_ref (s2l (get_str "$ref" m))) as [r| |]; try discriminate.
  apply andb_true_iff in H. destruct H as [_ H]. rewrite Ht in H. destruct t; try discriminate. apply gmem_GN. exact H.
Qed.

Lemma GN_target_obj b m b' t : GN b (JObj m) -> has_ref m = true -> sem_target E docs cwd (get_str "$ref" m) b = Some (b', t) -> exists mm, t = JObj mm.
Proof.
  intros Hg Hr Ht. pose proof (check_nodes_node b m Hck Hg) as H. unfold check_node in H. cbn [fst snd] in H.
  apply andb_true_iff in H. destruct H as [_ H]. rewrite Hr in H.
  destruct (nuri (get_str "$ref" m) b) as [nref| |] eqn:En; try (unfold sem_target in Ht; rewrite En in Ht; destruct (new_ref (s2l (get_str "$ref" m))); discriminate).
  destruct (new_ref (s2l (get_str "$ref" m))) as [r| |]; try discriminate.
  apply andb_true_iff in H. destruct H as [_ H]. rewrite Ht in H. destruct t; try discriminate. eexists; reflexivity.
Qed.

Lemma GN_same b m nref : GN b (JObj m) -> has_ref m = true -> nuri (get_str "$ref" m) b = POk nref ->
  keeps_resolver (get_str "$ref" m) b nref -> nbase cwd (strip_frag nref) = nbase cwd (strip_frag b).
Proof.
  intros Hg Hr Hn Hk. destruct (GN_ref b m nref Hg Hr Hn) as [r [_ [H _]]]. apply H. apply keeps_keepsb. exact Hk.
Qed.

Lemma GN_render b m nref s txt : GN b (JObj m) -> has_ref m = true -> nuri (get_str "$ref" m) b = POk nref ->
  rootid s = rid -> (render_kept OP ctx_base s nref = POk txt \/ render_rebased ctx_base s nref = POk txt) ->
  sem_target E docs cwd txt ctx_base = sem_target E docs cwd (get_str "$ref" m) b.
Proof.
  intros Hg Hr Hn Hrid Hren. destruct (GN_ref b m nref Hg Hr Hn) as [r [Hnr [_ [H1 H2]]]].
  destruct Hren as [Hk|Hk].
  - rewrite (render_kept_state s nref Hrid) in Hk. eapply check_txt_ok; [exact Hnr|exact Hn|exact H1|exact Hk].
  - rewrite (render_rebased_state s nref Hrid) in Hk. eapply check_txt_ok; [exact Hnr|exact Hn|exact H2|exact Hk].
Qed.
End Sound.

(* the theorem of ExpandSim.v with its graph hypotheses discharged by the decision procedure *)
Theorem checked_graph_sim (live : option (string * json)) :
  check_nodes = true ->
  (forall lu ld, live = Some (lu, ld) -> doc_at docs cwd lu = Some ld) ->
  o_cont OP = false ->
  forall d s parents rroot base j s' j',
    GN base j -> Inv docs rid s -> Coh cwd rroot base ->
    exp E docs cwd OP ctx_base live d s parents rroot base j = Done (s', j') ->
    Inv docs rid s' /\ bisimilar E docs cwd base j ctx_base j'.
Proof.
  intros Hck Hlive Hstrict. apply (exp_sim E docs cwd OP ctx_base live rid Hlive GN).
  - apply GN_child; exact Hck.
  - apply GN_target; exact Hck.
  - apply GN_plain; exact Hck.
  - apply GN_same; exact Hck.
  - apply GN_render; exact Hck.
  - exact Hstrict.
Qed.
End Check.

(* the located schema objects reachable from a work list (sub-schema positions and reference targets); a plain
   computation — whatever it returns is judged by [check_nodes] *)
Fixpoint collect (E : env) (docs : list (string * json)) (cwd : string) (fuel : nat) (work acc : list (string * json)) : list (string * json) :=
  match fuel with
  | 0 => acc
  | S f =>
      match work with
      | [] => acc
      | (b, j) :: w =>
          match j with
          | JObj m =>
              if existsb (fun p => String.eqb (fst p) b && json_seqb (snd p) j) acc then collect E docs cwd f w acc
              else
                let next := if has_ref m then match sem_target E docs cwd (get_str "$ref" m) b with Some bt => [bt] | None => [] end
                            else flat_map (fun kv => map (fun x => (b, x)) (kids (snd kv))) m in
                collect E docs cwd f (next ++ w)%list ((b, j) :: acc)
          | _ => collect E docs cwd f w acc
          end
      end
  end.
