(* Fuel in the whole of ExpandSpec (C04): (1) a `$ref` chain of a parameter, response or path item (deref) that runs out of
   fuel exhibits as many pairwise distinct canonical references as there was fuel — every hop puts a reference on the
   parent stack that was not on it; (2) the composition over operations, path items and the four sections consumes no
   fuel: ExpandSpec can only run out of fuel inside a schema expansion or inside a chain.  (The bound relative to a finite
   reference graph is in ExpandTermG.v.) *)
From Coq Require Import List String Ascii Bool Arith Lia.
From Spec Require Import Base.Json Base.JsonFacts Base.Url Codec.Types Codec.Codec Expand.Expand Expand.ExpandFacts.
Import ListNotations.
Local Open Scope string_scope.

Section SpecTerm.
Variable E : env.
Variable docs : list (string * json).
Variable cwd : string.
Variable OP : opts.
Variable ctx_base : string.
Variable live : option (string * json).

Theorem deref_oof : forall fuel s parents rroot base kind m,
  deref E docs cwd OP live fuel s parents rroot base kind m = OOF ->
  exists ps, List.length ps = fuel /\ (NoDup parents -> NoDup (parents ++ ps)%list) /\ Forall canonical_output ps.
Proof.
  induction fuel as [|f IH]; intros s parents rroot base kind m H.
  - exists []. split; [reflexivity|]. split; [rewrite app_nil_r; auto|constructor].
  - cbn [deref] in H. destruct (String.eqb (get_str "$ref" m) ""); [discriminate|].
    apply pbind_oof in H. destruct H as [nref [Hn H]].
    destruct (is_circular s nref parents) as [s1 circ] eqn:Ec. destruct circ; [discriminate|].
    assert (Hcont : forall s2 holder,
      ebind (transitive s2 rroot base (get_str "$ref" m)) (fun rc =>
        deref E docs cwd OP live f s2 (parents ++ [nref])%list (fst rc) (if snd rc then strip_frag nref else base) kind holder) = OOF ->
      exists ps, List.length ps = S f /\ (NoDup parents -> NoDup (parents ++ ps)%list) /\ Forall canonical_output ps).
    { intros s2 holder Hc. apply ebind_oof in Hc. destruct Hc as [Hc|[rc [_ Hc]]]; [exfalso; eapply transitive_not_oof; exact Hc|].
      destruct (IH _ _ _ _ _ _ Hc) as [ps [Hlen [Hnd Hall]]].
      exists (nref :: ps). split; [cbn; rewrite Hlen; reflexivity|]. split.
      - intros Hp. replace (parents ++ nref :: ps)%list with ((parents ++ [nref]) ++ ps)%list by (rewrite <- app_assoc; reflexivity).
        apply Hnd. apply NoDup_app_snoc; [exact Hp|eapply is_circular_fresh; exact Ec].
      - constructor; [exists (get_str "$ref" m), base; exact Hn|exact Hall]. }
    destruct (resolve E docs cwd live s1 rroot (get_str "$ref" m) base kind) as [[s2 t]|sf| |] eqn:Er.
    + destruct t; try discriminate. eapply Hcont. exact H.
    + destruct (o_cont OP); [eapply Hcont; exact H|discriminate].
    + exfalso. eapply resolve_not_oof. exact Er.
    + discriminate.
Qed.

(* ---------- the composition: nothing else consumes fuel ---------- *)
Section Compose.
Variable follow : st -> list string -> option string -> string -> json -> eres (st * json).
Variable fuel : nat.
Hypothesis Hfollow : forall s rr b j, follow s [] rr b j <> OOF.
Hypothesis Hderef : forall s rr b kind m, deref E docs cwd OP live fuel s [] rr b kind m <> OOF.

Lemma ebind_not_oof {A B} (r : eres A) (f : A -> eres B) : r <> OOF -> (forall a, f a <> OOF) -> ebind r f <> OOF.
Proof. intros Hr Hf. destruct r; cbn; auto; discriminate. Qed.

Lemma expand_por_not_oof s rr b kind j : expand_por E docs cwd OP live follow fuel s rr b kind j <> OOF.
Proof.
  unfold expand_por. destruct j; try discriminate. apply ebind_not_oof; [apply Hderef|].
  intros [[[s1 m1] rr1] b1]. destruct (assoc "schema" (remove_key "$ref" m1)) as [[| | | | |sm]|]; try discriminate.
  apply ebind_not_oof; [apply Hfollow|]. intros a. discriminate.
Qed.
Lemma fold_por_not_oof : forall l s rr b kind out, fold_por E docs cwd OP live follow fuel l s rr b kind out <> OOF.
Proof.
  induction l as [|x r IH]; intros s rr b kind out; cbn [fold_por]; [discriminate|].
  apply ebind_not_oof; [apply expand_por_not_oof|]. intros a. apply IH.
Qed.
Lemma fold_por_map_not_oof : forall l s rr b kind out, fold_por_map E docs cwd OP live follow fuel l s rr b kind out <> OOF.
Proof.
  induction l as [|[k x] r IH]; intros s rr b kind out; cbn [fold_por_map]; [discriminate|].
  destruct (has_x_prefix_ci k); [apply IH|]. apply ebind_not_oof; [apply expand_por_not_oof|]. intros a. apply IH.
Qed.
Lemma expand_operation_not_oof s rr b j : expand_operation E docs cwd OP live follow fuel s rr b j <> OOF.
Proof.
  unfold expand_operation. destruct j; try discriminate. apply ebind_not_oof.
  - destruct (assoc "parameters" m) as [[| | | |ps|]|]; try discriminate.
    apply ebind_not_oof; [apply fold_por_not_oof|]. intros a. discriminate.
  - intros sm. destruct (assoc "responses" (snd sm)) as [[| | | | |rs]|]; try discriminate.
    apply ebind_not_oof; [apply fold_por_map_not_oof|]. intros a. discriminate.
Qed.
Lemma fold_left_not_oof {A B} (f : eres B -> A -> eres B) (l : list A) : (forall acc x, acc <> OOF -> f acc x <> OOF) ->
  forall acc, acc <> OOF -> fold_left f l acc <> OOF.
Proof. intros Hf. induction l as [|x r IH]; intros acc Ha; cbn [fold_left]; [exact Ha|]. apply IH. apply Hf. exact Ha. Qed.
Lemma expand_path_item_not_oof s rr b j : expand_path_item E docs cwd OP live follow fuel s rr b j <> OOF.
Proof.
  unfold expand_path_item. destruct j; try discriminate. apply ebind_not_oof; [apply Hderef|].
  intros [[[s1 m1] rr1] b1]. apply ebind_not_oof; [|intros a; discriminate].
  apply fold_left_not_oof.
  - intros acc op Ha. apply ebind_not_oof; [exact Ha|]. intros sm. destruct (assoc op (snd sm)); [|discriminate].
    apply ebind_not_oof; [apply expand_operation_not_oof|]. intros a. discriminate.
  - destruct (assoc "parameters" (remove_key "$ref" m1)) as [[| | | |ps|]|]; try discriminate.
    apply ebind_not_oof; [apply fold_por_not_oof|]. intros a. discriminate.
Qed.
Lemma section_step_not_oof k f acc : (forall s k' v, f s k' v <> OOF) -> acc <> OOF -> section_step k f acc <> OOF.
Proof.
  intros Hf Ha. unfold section_step. apply ebind_not_oof; [exact Ha|]. intros sm.
  destruct (assoc k (snd sm)) as [[| | | | |vm]|]; try discriminate.
  apply ebind_not_oof; [|intros a; discriminate].
  apply fold_left_not_oof; [|discriminate]. intros acc2 dv Ha2. apply ebind_not_oof; [exact Ha2|]. intros so2.
  apply ebind_not_oof; [apply Hf|]. intros a. discriminate.
Qed.
End Compose.

Theorem expand_spec_with_not_oof follow fuel root_url root s :
  (forall s rr b j, follow s [] rr b j <> OOF) ->
  (forall s rr b kind m, deref E docs cwd OP live fuel s [] rr b kind m <> OOF) ->
  (forall j s k rr b, walk E docs cwd OP ctx_base live follow j s [k] rr b <> OOF) ->
  expand_spec_with E docs cwd OP ctx_base live follow fuel root_url root s <> OOF.
Proof.
  intros Hf0 Hd Hw. unfold expand_spec_with. destruct root; try discriminate.
  apply ebind_not_oof; [|intros a; discriminate].
  apply section_step_not_oof.
  { intros s0 k v. destruct (has_x_prefix_ci k); [discriminate|]. destruct v; try discriminate. apply expand_path_item_not_oof; assumption. }
  apply section_step_not_oof; [intros; apply expand_por_not_oof; assumption|].
  apply section_step_not_oof; [intros; apply expand_por_not_oof; assumption|].
  destruct (o_skip OP); [discriminate|]. apply section_step_not_oof; [intros; apply Hw|discriminate].
Qed.

End SpecTerm.
