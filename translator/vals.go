package main

// Translation of the validation accessors (validations.go, schema.go and the WithValidations
// wrappers) into Gallina.  Supported fragment — anything else aborts with an error naming the
// offending source position:
//
//   statements   x.F = e | x.E.M(args) (pointer-receiver method of a modelled struct) |
//                v := e | done = append(done, lit) | done := make(T, 0, n) | const … |
//                if cond { assignments / appends }  (no else) |
//                defer func() { done.apply(cbs) }() | return e | return
//                for _, x := range xs { … } and f(args) on a callback (only in functions that
//                mutate nothing: they produce the list of callback invocations)
//   expressions  x | x.F (through embedded structs) | nil | "" | "lit" | true | false |
//                T{F: e, …} | e != nil | e != "" | e || e | e && e | !e | len(e) > 0 | x.M(args)
//
// Go types are mapped to Coq types by shape only: *T, maps, interface{} => option json (nil-able,
// payload opaque); []interface{} => option (list json); string; bool; modelled structs => records;
// every other type => json (opaque).

import (
	"fmt"
	"go/ast"
	"go/parser"
	"go/token"
	"os"
	"path/filepath"
	"regexp"
	"sort"
	"strings"
)

type fieldInfo struct {
	Name     string
	Type     ast.Expr
	Embedded bool
}

type structInfo struct {
	Name   string
	Fields []fieldInfo
}

type methodInfo struct {
	Recv    string // type name
	Ptr     bool
	RecvVar string
	Decl    *ast.FuncDecl
}

type valsTr struct {
	fset     *token.FileSet
	structs  map[string]*structInfo // every struct of the package
	named    map[string]ast.Expr    // named non-struct types
	methods  map[string]*methodInfo // "Recv.Name"
	modelled map[string]bool
	out      strings.Builder
	errs     []string
}

func (t *valsTr) failf(pos token.Pos, format string, a ...interface{}) {
	t.errs = append(t.errs, fmt.Sprintf("%s: %s", t.fset.Position(pos), fmt.Sprintf(format, a...)))
}

func loadPackage(dir string) (*token.FileSet, []*ast.File, error) {
	fset := token.NewFileSet()
	ents, err := os.ReadDir(dir)
	if err != nil {
		return nil, nil, err
	}
	var files []*ast.File
	for _, e := range ents {
		n := e.Name()
		if e.IsDir() || !strings.HasSuffix(n, ".go") || strings.HasSuffix(n, "_test.go") {
			continue
		}
		if strings.HasSuffix(n, "_windows.go") || n == "verif_export.go" {
			continue
		}
		f, err := parser.ParseFile(fset, filepath.Join(dir, n), nil, parser.ParseComments)
		if err != nil {
			return nil, nil, err
		}
		files = append(files, f)
	}
	return fset, files, nil
}

func newValsTr(fset *token.FileSet, files []*ast.File) *valsTr {
	t := &valsTr{fset: fset, structs: map[string]*structInfo{}, named: map[string]ast.Expr{},
		methods: map[string]*methodInfo{}, modelled: map[string]bool{}}
	for _, f := range files {
		for _, d := range f.Decls {
			switch d := d.(type) {
			case *ast.GenDecl:
				if d.Tok != token.TYPE {
					continue
				}
				for _, s := range d.Specs {
					ts := s.(*ast.TypeSpec)
					if st, ok := ts.Type.(*ast.StructType); ok {
						si := &structInfo{Name: ts.Name.Name}
						for _, fl := range st.Fields.List {
							if len(fl.Names) == 0 {
								si.Fields = append(si.Fields, fieldInfo{Name: typeBaseName(fl.Type), Type: fl.Type, Embedded: true})
							}
							for _, n := range fl.Names {
								si.Fields = append(si.Fields, fieldInfo{Name: n.Name, Type: fl.Type})
							}
						}
						t.structs[si.Name] = si
					} else {
						t.named[ts.Name.Name] = ts.Type
					}
				}
			case *ast.FuncDecl:
				if d.Recv == nil || len(d.Recv.List) != 1 {
					continue
				}
				r := d.Recv.List[0]
				mi := &methodInfo{Decl: d}
				switch rt := r.Type.(type) {
				case *ast.StarExpr:
					mi.Ptr = true
					mi.Recv = typeBaseName(rt.X)
				default:
					mi.Recv = typeBaseName(rt)
				}
				if len(r.Names) == 1 {
					mi.RecvVar = r.Names[0].Name
				}
				t.methods[mi.Recv+"."+d.Name.Name] = mi
			}
		}
	}
	return t
}

func typeBaseName(e ast.Expr) string {
	switch e := e.(type) {
	case *ast.Ident:
		return e.Name
	case *ast.StarExpr:
		return typeBaseName(e.X)
	case *ast.SelectorExpr:
		return e.Sel.Name
	}
	return "?"
}

// coqType maps a Go type expression to a Coq type.
func (t *valsTr) coqType(e ast.Expr) string {
	switch e := e.(type) {
	case *ast.Ident:
		switch e.Name {
		case "bool":
			return "bool"
		case "string":
			return "string"
		}
		if t.modelled[e.Name] {
			return e.Name
		}
		if u, ok := t.named[e.Name]; ok {
			switch u := u.(type) {
			case *ast.MapType:
				return "option json"
			case *ast.ArrayType:
				if u.Len == nil {
					if _, ok := t.structs[typeBaseName(u.Elt)]; ok && t.modelled[typeBaseName(u.Elt)] {
						return "list " + typeBaseName(u.Elt)
					}
					return "option json"
				}
			case *ast.InterfaceType:
				return "option json"
			}
		}
		return "json"
	case *ast.StarExpr:
		return "option json"
	case *ast.MapType:
		return "option json"
	case *ast.InterfaceType:
		return "option json"
	case *ast.ArrayType:
		if e.Len == nil {
			if it, ok := e.Elt.(*ast.InterfaceType); ok && it.Methods.NumFields() == 0 {
				return "option (list json)"
			}
			if _, ok := e.Elt.(*ast.FuncType); ok {
				return "nat" // a list of callbacks is modelled by their number
			}
			return "option json"
		}
	case *ast.Ellipsis:
		if _, ok := e.Elt.(*ast.FuncType); ok {
			return "nat"
		}
	}
	return "json"
}

// fieldType gives the Coq type of field f of modelled struct s.
func (t *valsTr) fieldCoqType(s string, f fieldInfo) string {
	if s == "clearedValidation" && f.Name == "Value" {
		return "cval"
	}
	return t.coqType(f.Type)
}

func (t *valsTr) emitRecord(name string) {
	si := t.structs[name]
	fmt.Fprintf(&t.out, "Record %s := Build_%s {\n", name, name)
	for i, f := range si.Fields {
		sep := ";"
		if i == len(si.Fields)-1 {
			sep = ""
		}
		fmt.Fprintf(&t.out, "  %s_%s : %s%s\n", name, f.Name, t.fieldCoqType(name, f), sep)
	}
	fmt.Fprintf(&t.out, "}.\n")
	// setters
	for _, f := range si.Fields {
		fmt.Fprintf(&t.out, "Definition set_%s_%s (r : %s) (x : %s) : %s :=\n  Build_%s", name, f.Name, name, t.fieldCoqType(name, f), name, name)
		for _, g := range si.Fields {
			if g.Name == f.Name {
				t.out.WriteString(" x")
			} else {
				fmt.Fprintf(&t.out, " (%s_%s r)", name, g.Name)
			}
		}
		t.out.WriteString(".\n")
	}
	// the list of field names, for the frame statements
	var names []string
	for _, f := range si.Fields {
		names = append(names, fmt.Sprintf("%q%%string", f.Name))
	}
	fmt.Fprintf(&t.out, "Definition fields_%s : list string := [%s].\n", name, strings.Join(names, "; "))
	// JSON view used by the correspondence driver (field by field, by Go field name)
	conv := func(ty string) (string, string) {
		switch ty {
		case "bool":
			return "enc_bool", "dec_bool"
		case "string":
			return "JStr", "dec_str"
		case "json":
			return "enc_id", "dec_id"
		case "option json":
			return "enc_opt", "dec_opt"
		case "option (list json)":
			return "enc_optlist", "dec_optlist"
		case "cval":
			return "enc_cval", "dec_cval"
		}
		if t.modelled[ty] {
			return ty + "_to_json", ty + "_of_json"
		}
		return "enc_unsupported", "dec_unsupported"
	}
	fmt.Fprintf(&t.out, "Definition %s_to_json (r : %s) : json :=\n  JObj [", name, name)
	for i, f := range si.Fields {
		e, _ := conv(t.fieldCoqType(name, f))
		if i > 0 {
			t.out.WriteString(";\n        ")
		}
		fmt.Fprintf(&t.out, "(%q%%string, %s (%s_%s r))", f.Name, e, name, f.Name)
	}
	t.out.WriteString("].\n")
	fmt.Fprintf(&t.out, "Definition %s_of_json (j : json) : %s :=\n  Build_%s", name, name, name)
	for _, f := range si.Fields {
		_, d := conv(t.fieldCoqType(name, f))
		fmt.Fprintf(&t.out, "\n    (%s (jget %q%%string j))", d, f.Name)
	}
	t.out.WriteString(".\n\n")
}

// ---------------------------------------------------------------------------------------------
// expressions

type scope struct {
	vars map[string]string // Go variable -> Coq type
}

// resolveField finds field `name` in struct `s`, searching embedded modelled structs depth-first.
// It returns the chain of (struct, field) steps.
func (t *valsTr) resolveField(s, name string) ([][2]string, string, bool) {
	si, ok := t.structs[s]
	if !ok || !t.modelled[s] {
		return nil, "", false
	}
	for _, f := range si.Fields {
		if f.Name == name {
			return [][2]string{{s, name}}, t.fieldCoqType(s, f), true
		}
	}
	for _, f := range si.Fields {
		if f.Embedded && t.modelled[f.Name] {
			if chain, ty, ok := t.resolveField(f.Name, name); ok {
				return append([][2]string{{s, f.Name}}, chain...), ty, true
			}
		}
	}
	return nil, "", false
}

// resolveMethod finds method `name` on struct s or on its embedded modelled structs.
func (t *valsTr) resolveMethod(s, name string) ([][2]string, *methodInfo, bool) {
	if m, ok := t.methods[s+"."+name]; ok {
		return nil, m, true
	}
	si, ok := t.structs[s]
	if !ok {
		return nil, nil, false
	}
	for _, f := range si.Fields {
		if f.Embedded && t.modelled[f.Name] {
			if chain, m, ok := t.resolveMethod(f.Name, name); ok {
				return append([][2]string{{s, f.Name}}, chain...), m, true
			}
		}
	}
	return nil, nil, false
}

func project(base string, chain [][2]string) string {
	for _, st := range chain {
		base = fmt.Sprintf("(%s_%s %s)", st[0], st[1], base)
	}
	return base
}

// update builds the term that replaces the value at `chain` inside `base` by `val`.
func update(base string, chain [][2]string, val string) string {
	if len(chain) == 0 {
		return val
	}
	st := chain[0]
	inner := update(fmt.Sprintf("(%s_%s %s)", st[0], st[1], base), chain[1:], val)
	return fmt.Sprintf("(set_%s_%s %s %s)", st[0], st[1], base, inner)
}

// expr translates an expression; want is the Coq type expected by the context ("" if unknown).
func (t *valsTr) expr(sc *scope, e ast.Expr, want string) (string, string) {
	switch e := e.(type) {
	case *ast.ParenExpr:
		return t.expr(sc, e.X, want)
	case *ast.Ident:
		switch e.Name {
		case "nil":
			return "None", want
		case "true":
			return "true", "bool"
		case "false":
			return "false", "bool"
		}
		if ty, ok := sc.vars[e.Name]; ok {
			return "v_" + e.Name, ty
		}
		t.failf(e.Pos(), "unknown identifier %s", e.Name)
		return "?", ""
	case *ast.BasicLit:
		if e.Kind == token.STRING {
			return e.Value + "%string", "string"
		}
		t.failf(e.Pos(), "unsupported literal %s", e.Value)
		return "?", ""
	case *ast.SelectorExpr:
		base, bty := t.expr(sc, e.X, "")
		chain, ty, ok := t.resolveField(bty, e.Sel.Name)
		if !ok {
			t.failf(e.Pos(), "cannot resolve field %s of %s", e.Sel.Name, bty)
			return "?", ""
		}
		return project(base, chain), ty
	case *ast.UnaryExpr:
		if e.Op == token.NOT {
			x, _ := t.expr(sc, e.X, "bool")
			return "(negb " + x + ")", "bool"
		}
	case *ast.BinaryExpr:
		switch e.Op {
		case token.LOR, token.LAND:
			x, _ := t.expr(sc, e.X, "bool")
			y, _ := t.expr(sc, e.Y, "bool")
			op := "||"
			if e.Op == token.LAND {
				op = "&&"
			}
			return fmt.Sprintf("(%s %s %s)", x, op, y), "bool"
		case token.NEQ, token.EQL:
			x, xty := t.expr(sc, e.X, "")
			var r string
			if id, ok := e.Y.(*ast.Ident); ok && id.Name == "nil" {
				if !strings.HasPrefix(xty, "option ") {
					t.failf(e.Pos(), "nil test on non-nilable %s", xty)
				}
				r = "(is_some " + x + ")"
			} else if bl, ok := e.Y.(*ast.BasicLit); ok && bl.Kind == token.STRING && xty == "string" {
				r = fmt.Sprintf("(negb (String.eqb %s %s%%string))", x, bl.Value)
			} else {
				t.failf(e.Pos(), "unsupported comparison")
				return "?", "bool"
			}
			if e.Op == token.EQL {
				r = "(negb " + r + ")"
			}
			return r, "bool"
		case token.GTR:
			// len(x) > 0
			if c, ok := e.X.(*ast.CallExpr); ok {
				if id, ok := c.Fun.(*ast.Ident); ok && id.Name == "len" && len(c.Args) == 1 {
					if bl, ok := e.Y.(*ast.BasicLit); ok && bl.Value == "0" {
						x, xty := t.expr(sc, c.Args[0], "")
						if xty != "option (list json)" {
							t.failf(e.Pos(), "len of %s", xty)
						}
						return "(Nat.ltb 0 (golen " + x + "))", "bool"
					}
				}
			}
		}
	case *ast.CompositeLit:
		name := typeBaseName(e.Type)
		si, ok := t.structs[name]
		if !ok || !t.modelled[name] {
			t.failf(e.Pos(), "composite literal of unmodelled type %s", name)
			return "?", ""
		}
		given := map[string]ast.Expr{}
		for _, el := range e.Elts {
			kv, ok := el.(*ast.KeyValueExpr)
			if !ok {
				t.failf(el.Pos(), "positional composite literal")
				continue
			}
			given[kv.Key.(*ast.Ident).Name] = kv.Value
		}
		var b strings.Builder
		fmt.Fprintf(&b, "(Build_%s", name)
		for _, f := range si.Fields {
			fty := t.fieldCoqType(name, f)
			if v, ok := given[f.Name]; ok {
				x, xty := t.expr(sc, v, fty)
				if fty == "cval" {
					x = wrapCval(x, xty)
				} else if xty != fty {
					t.failf(v.Pos(), "field %s.%s: have %s want %s", name, f.Name, xty, fty)
				}
				b.WriteString(" " + x)
				delete(given, f.Name)
			} else {
				b.WriteString(" " + t.zero(fty))
			}
		}
		for k, v := range given {
			t.failf(v.Pos(), "unknown field %s in literal of %s", k, name)
		}
		b.WriteString(")")
		return b.String(), name
	case *ast.CallExpr:
		// value-receiver method call used as an expression
		if sel, ok := e.Fun.(*ast.SelectorExpr); ok {
			base, bty := t.expr(sc, sel.X, "")
			chain, m, ok := t.resolveMethod(bty, sel.Sel.Name)
			if !ok {
				t.failf(e.Pos(), "cannot resolve method %s on %s", sel.Sel.Name, bty)
				return "?", ""
			}
			if m.Ptr {
				t.failf(e.Pos(), "pointer-receiver method %s used as an expression", sel.Sel.Name)
			}
			call := fmt.Sprintf("(%s_%s %s", m.Recv, m.Decl.Name.Name, project(base, chain))
			params := flatParams(m.Decl)
			if len(params) != len(e.Args) {
				t.failf(e.Pos(), "arity mismatch calling %s", sel.Sel.Name)
			}
			for i, a := range e.Args {
				x, _ := t.expr(sc, a, t.coqType(params[i].Type))
				call += " " + x
			}
			call += ")"
			ret := "?"
			if m.Decl.Type.Results != nil && len(m.Decl.Type.Results.List) == 1 {
				ret = t.coqType(m.Decl.Type.Results.List[0].Type)
			}
			return call, ret
		}
	}
	t.failf(e.Pos(), "unsupported expression %T", e)
	return "?", ""
}

func wrapCval(x, ty string) string {
	switch ty {
	case "option json":
		return "(CVopt " + x + ")"
	case "bool":
		return "(CVbool " + x + ")"
	case "string":
		return "(CVstr " + x + ")"
	case "option (list json)":
		return "(CVlist " + x + ")"
	}
	return "(CVunsupported " + x + ")"
}

func (t *valsTr) zero(ty string) string {
	switch {
	case ty == "bool":
		return "false"
	case ty == "string":
		return "EmptyString"
	case ty == "nat":
		return "0"
	case ty == "json":
		return "JNull"
	case ty == "cval":
		return "(CVopt None)"
	case strings.HasPrefix(ty, "option "):
		return "None"
	case strings.HasPrefix(ty, "list "):
		return "[]"
	case t.modelled[ty]:
		si := t.structs[ty]
		s := "(Build_" + ty
		for _, f := range si.Fields {
			s += " " + t.zero(t.fieldCoqType(ty, f))
		}
		return s + ")"
	}
	return "?"
}

type param struct {
	Name string
	Type ast.Expr
}

func flatParams(d *ast.FuncDecl) []param {
	var ps []param
	for _, f := range d.Type.Params.List {
		for _, n := range f.Names {
			ps = append(ps, param{n.Name, f.Type})
		}
	}
	return ps
}

// ---------------------------------------------------------------------------------------------
// statements

type fnCtx struct {
	sc       *scope
	recv     string // Go name of the receiver variable
	recvTy   string
	ptr      bool
	doneVar  string // local slice of cleared validations, if any
	deferred string // Coq term for the events produced at exit
	cbsVar   string
}

// tuple of mutable state
func (c *fnCtx) state() string {
	if c.doneVar != "" {
		return fmt.Sprintf("(v_%s, v_%s)", c.recv, c.doneVar)
	}
	return "v_" + c.recv
}
func (c *fnCtx) statePat() string {
	if c.doneVar != "" {
		return fmt.Sprintf("'(v_%s, v_%s)", c.recv, c.doneVar)
	}
	return "v_" + c.recv
}

// lhsChain resolves an assignable expression rooted at the receiver.
func (t *valsTr) lhsChain(c *fnCtx, e ast.Expr) ([][2]string, string, bool) {
	switch e := e.(type) {
	case *ast.Ident:
		if e.Name == c.recv {
			return nil, c.recvTy, true
		}
		if ty, ok := c.sc.vars[e.Name]; ok && t.modelled[ty] {
			return nil, "local:" + e.Name + ":" + ty, true
		}
	case *ast.SelectorExpr:
		chain, ty, ok := t.lhsChain(c, e.X)
		if !ok {
			return nil, "", false
		}
		root := ""
		if strings.HasPrefix(ty, "local:") {
			parts := strings.SplitN(ty, ":", 3)
			root = "local:" + parts[1] + ":"
			ty = parts[2]
		}
		ch, fty, ok := t.resolveField(ty, e.Sel.Name)
		if !ok {
			return nil, "", false
		}
		return append(chain, ch...), root + fty, true
	}
	return nil, "", false
}

func rootIdent(e ast.Expr) string {
	for {
		switch x := e.(type) {
		case *ast.Ident:
			return x.Name
		case *ast.SelectorExpr:
			e = x.X
		default:
			return ""
		}
	}
}

// stmts translates a statement list; `tail` produces the final term when control falls off the end.
func (t *valsTr) stmts(c *fnCtx, list []ast.Stmt, tail func() string) string {
	if len(list) == 0 {
		return tail()
	}
	s := list[0]
	rest := func() string { return t.stmts(c, list[1:], tail) }
	switch s := s.(type) {
	case *ast.DeclStmt:
		if gd, ok := s.Decl.(*ast.GenDecl); ok && gd.Tok == token.CONST {
			return rest()
		}
	case *ast.DeferStmt:
		// defer func() { done.apply(cbs) }()
		if fl, ok := s.Call.Fun.(*ast.FuncLit); ok && len(fl.Body.List) == 1 {
			if es, ok := fl.Body.List[0].(*ast.ExprStmt); ok {
				if call, ok := es.X.(*ast.CallExpr); ok {
					if sel, ok := call.Fun.(*ast.SelectorExpr); ok && len(call.Args) == 1 {
						d := rootIdent(sel.X)
						a := rootIdent(call.Args[0])
						if d != "" && a != "" {
							if _, m, ok := t.resolveMethod("clearedValidations", sel.Sel.Name); ok && m != nil {
								c.deferred = fmt.Sprintf("(clearedValidations_%s v_%s v_%s)", sel.Sel.Name, d, a)
								c.doneVar = d
								return rest()
							}
						}
					}
				}
			}
		}
		t.failf(s.Pos(), "unsupported defer")
		return "?"
	case *ast.AssignStmt:
		if len(s.Lhs) != 1 || len(s.Rhs) != 1 {
			t.failf(s.Pos(), "multi-assignment")
			return "?"
		}
		// done := make(...)
		if call, ok := s.Rhs[0].(*ast.CallExpr); ok {
			if id, ok := call.Fun.(*ast.Ident); ok {
				lhs, lok := s.Lhs[0].(*ast.Ident)
				if id.Name == "make" && lok && s.Tok == token.DEFINE {
					c.sc.vars[lhs.Name] = "list clearedValidation"
					return fmt.Sprintf("let v_%s : list clearedValidation := [] in\n  %s", lhs.Name, rest())
				}
				if id.Name == "append" && lok && len(call.Args) == 2 && rootIdent(call.Args[0]) == lhs.Name {
					x, _ := t.expr(c.sc, call.Args[1], "clearedValidation")
					return fmt.Sprintf("let v_%s := v_%s ++ [%s] in\n  %s", lhs.Name, lhs.Name, x, rest())
				}
			}
		}
		if s.Tok == token.DEFINE {
			lhs, ok := s.Lhs[0].(*ast.Ident)
			if !ok {
				t.failf(s.Pos(), "unsupported define")
				return "?"
			}
			x, ty := t.expr(c.sc, s.Rhs[0], "")
			c.sc.vars[lhs.Name] = ty
			return fmt.Sprintf("let v_%s := %s in\n  %s", lhs.Name, x, rest())
		}
		chain, ty, ok := t.lhsChain(c, s.Lhs[0])
		if !ok || len(chain) == 0 {
			t.failf(s.Pos(), "unsupported assignment target")
			return "?"
		}
		root := c.recv
		if strings.HasPrefix(ty, "local:") {
			parts := strings.SplitN(ty, ":", 3)
			root, ty = parts[1], parts[2]
		} else if !c.ptr {
			t.failf(s.Pos(), "assignment through a value receiver")
		}
		x, xty := t.expr(c.sc, s.Rhs[0], ty)
		if xty != ty {
			t.failf(s.Pos(), "assignment type mismatch: %s := %s", ty, xty)
		}
		return fmt.Sprintf("let v_%s := %s in\n  %s", root, update("v_"+root, chain, x), rest())
	case *ast.ExprStmt:
		call, ok := s.X.(*ast.CallExpr)
		if !ok {
			break
		}
		sel, ok := call.Fun.(*ast.SelectorExpr)
		if !ok {
			break
		}
		chain, ty, ok := t.lhsChain(c, sel.X)
		if !ok || strings.HasPrefix(ty, "local:") {
			t.failf(s.Pos(), "unsupported call target")
			return "?"
		}
		mchain, m, ok := t.resolveMethod(ty, sel.Sel.Name)
		if !ok || !m.Ptr || hasCallbacks(m.Decl) {
			t.failf(s.Pos(), "unsupported method call %s", sel.Sel.Name)
			return "?"
		}
		full := append(chain, mchain...)
		callT := fmt.Sprintf("(%s_%s %s", m.Recv, m.Decl.Name.Name, project("v_"+c.recv, full))
		params := flatParams(m.Decl)
		if len(params) != len(call.Args) {
			t.failf(s.Pos(), "arity mismatch")
		}
		for i, a := range call.Args {
			x, xty := t.expr(c.sc, a, t.coqType(params[i].Type))
			if xty != t.coqType(params[i].Type) {
				t.failf(a.Pos(), "argument type mismatch: %s vs %s", xty, t.coqType(params[i].Type))
			}
			callT += " " + x
		}
		callT += ")"
		return fmt.Sprintf("let v_%s := %s in\n  %s", c.recv, update("v_"+c.recv, full, callT), rest())
	case *ast.IfStmt:
		if s.Init != nil || s.Else != nil {
			t.failf(s.Pos(), "if with init/else")
			return "?"
		}
		cond, _ := t.expr(c.sc, s.Cond, "bool")
		st := c.state()
		body := t.stmts(c, s.Body.List, func() string { return st })
		return fmt.Sprintf("let %s := (if %s then\n    %s\n  else %s) in\n  %s", c.statePat(), cond, strings.ReplaceAll(body, "\n  ", "\n    "), st, rest())
	case *ast.ReturnStmt:
		if len(list) != 1 {
			t.failf(s.Pos(), "return not in tail position")
		}
		if len(s.Results) == 0 {
			return tail()
		}
		if len(s.Results) == 1 {
			if id, ok := s.Results[0].(*ast.Ident); ok && id.Name == c.recv && c.ptr {
				return tail()
			}
			x, _ := t.expr(c.sc, s.Results[0], "")
			return x
		}
	}
	t.failf(s.Pos(), "unsupported statement %T", s)
	return "?"
}

func hasCallbacks(d *ast.FuncDecl) bool {
	for _, f := range d.Type.Params.List {
		switch ft := f.Type.(type) {
		case *ast.Ellipsis:
			if _, ok := ft.Elt.(*ast.FuncType); ok {
				return true
			}
		case *ast.ArrayType:
			if _, ok := ft.Elt.(*ast.FuncType); ok {
				return true
			}
		}
	}
	return false
}

// events translates the body of a function that only iterates and invokes callbacks.
func (t *valsTr) events(sc *scope, list []ast.Stmt) string {
	var parts []string
	for _, s := range list {
		switch s := s.(type) {
		case *ast.RangeStmt:
			if s.Key != nil {
				if id, ok := s.Key.(*ast.Ident); !ok || id.Name != "_" {
					t.failf(s.Pos(), "range with key")
				}
			}
			v, ok := s.Value.(*ast.Ident)
			if !ok {
				t.failf(s.Pos(), "range without value")
				return "?"
			}
			x, xty := t.expr(sc, s.X, "")
			inner := &scope{vars: map[string]string{}}
			for k, vv := range sc.vars {
				inner.vars[k] = vv
			}
			var dom string
			switch {
			case xty == "nat":
				dom = "(seq 0 " + x + ")"
				inner.vars[v.Name] = "callback"
			case strings.HasPrefix(xty, "list "):
				dom = x
				inner.vars[v.Name] = strings.TrimPrefix(xty, "list ")
			default:
				t.failf(s.Pos(), "range over %s", xty)
				return "?"
			}
			parts = append(parts, fmt.Sprintf("(flat_map (fun v_%s => %s) %s)", v.Name, t.events(inner, s.Body.List), dom))
		case *ast.ExprStmt:
			call, ok := s.X.(*ast.CallExpr)
			if !ok {
				t.failf(s.Pos(), "unsupported statement in event function")
				return "?"
			}
			id, ok := call.Fun.(*ast.Ident)
			if !ok || sc.vars[id.Name] != "callback" || len(call.Args) != 2 {
				t.failf(s.Pos(), "unsupported call in event function")
				return "?"
			}
			a, aty := t.expr(sc, call.Args[0], "string")
			b, bty := t.expr(sc, call.Args[1], "cval")
			if aty != "string" || bty != "cval" {
				t.failf(s.Pos(), "callback argument types %s, %s", aty, bty)
			}
			parts = append(parts, fmt.Sprintf("[(v_%s, %s, %s)]", id.Name, a, b))
		default:
			t.failf(s.Pos(), "unsupported statement %T in event function", s)
			return "?"
		}
	}
	if len(parts) == 0 {
		return "[]"
	}
	return "(" + strings.Join(parts, " ++ ") + ")"
}

func (t *valsTr) emitMethod(key string) {
	m, ok := t.methods[key]
	if !ok {
		t.errs = append(t.errs, "method not found: "+key)
		return
	}
	d := m.Decl
	sc := &scope{vars: map[string]string{}}
	recv := m.RecvVar
	recvTy := m.Recv
	if _, isStruct := t.structs[m.Recv]; !isStruct {
		recvTy = t.coqType(&ast.Ident{Name: m.Recv})
	}
	sc.vars[recv] = recvTy
	sig := fmt.Sprintf("Definition %s_%s (v_%s : %s)", m.Recv, d.Name.Name, recv, recvTy)
	for _, p := range flatParams(d) {
		ty := t.coqType(p.Type)
		sc.vars[p.Name] = ty
		sig += fmt.Sprintf(" (v_%s : %s)", p.Name, ty)
	}
	isEvent := !m.Ptr && hasCallbacks(d) && d.Type.Results == nil
	if isEvent {
		fmt.Fprintf(&t.out, "%s : list (nat * string * cval) :=\n  %s.\n\n", sig, t.events(sc, d.Body.List))
		return
	}
	c := &fnCtx{sc: sc, recv: recv, recvTy: recvTy, ptr: m.Ptr}
	// a deferred apply makes `done` part of the state from the start: find it first
	for _, s := range d.Body.List {
		if ds, ok := s.(*ast.DeferStmt); ok {
			if fl, ok := ds.Call.Fun.(*ast.FuncLit); ok && len(fl.Body.List) == 1 {
				if es, ok := fl.Body.List[0].(*ast.ExprStmt); ok {
					if call, ok := es.X.(*ast.CallExpr); ok {
						if sel, ok := call.Fun.(*ast.SelectorExpr); ok {
							c.doneVar = rootIdent(sel.X)
						}
					}
				}
			}
		}
	}
	body := t.stmts(c, d.Body.List, func() string {
		if c.deferred != "" {
			return fmt.Sprintf("(v_%s, %s)", recv, c.deferred)
		}
		return "v_" + recv
	})
	fmt.Fprintf(&t.out, "%s :=\n  %s.\n\n", sig, body)
}

func genVals(repo, outPath string) error {
	fset, files, err := loadPackage(repo)
	if err != nil {
		return err
	}
	t := newValsTr(fset, files)
	records := []string{"clearedValidation", "CommonValidations", "SchemaValidations", "SchemaProps", "Schema", "Parameter", "Header", "Items"}
	for _, r := range records {
		if _, ok := t.structs[r]; !ok {
			return fmt.Errorf("struct %s not found", r)
		}
		t.modelled[r] = true
	}
	t.out.WriteString("(* GENERATED by /verif/translator from /repo — do not edit. *)\n")
	t.out.WriteString("From Coq Require Import List String Bool Arith.\nFrom Spec Require Import Base.Json Vals.ValsBase.\nImport ListNotations.\nLocal Open Scope bool_scope.\n\n")
	for _, r := range records {
		t.emitRecord(r)
	}
	// order matters: callees first
	order := []string{
		"clearedValidations.apply",
		"CommonValidations.SetValidations", "CommonValidations.Validations",
		"CommonValidations.ClearNumberValidations", "CommonValidations.ClearStringValidations", "CommonValidations.ClearArrayValidations",
		"CommonValidations.HasNumberValidations", "CommonValidations.HasStringValidations", "CommonValidations.HasArrayValidations", "CommonValidations.HasEnum",
		"SchemaValidations.HasObjectValidations", "SchemaValidations.SetValidations", "SchemaValidations.Validations", "SchemaValidations.ClearObjectValidations",
		"Schema.SetValidations", "Schema.Validations", "Schema.WithValidations",
		"Parameter.WithValidations", "Header.WithValidations", "Items.WithValidations",
	}
	for _, k := range order {
		t.emitMethod(k)
	}
	// every method of the validation types must have been translated: a new one is a new obligation
	var extra []string
	for k, m := range t.methods {
		if m.Recv == "CommonValidations" || m.Recv == "SchemaValidations" || m.Recv == "clearedValidations" {
			found := false
			for _, o := range order {
				if o == k {
					found = true
				}
			}
			if !found {
				extra = append(extra, k)
			}
		}
	}
	sort.Strings(extra)
	for _, k := range extra {
		t.errs = append(t.errs, "untranslated method of a validation type: "+k)
	}
	if len(t.errs) > 0 {
		return fmt.Errorf("translation failed:\n  %s", strings.Join(t.errs, "\n  "))
	}
	// type names that collide with Coq vernacular are renamed (only the bare word is a type name:
	// projections, constructors and setters carry the name with an underscore attached)
	res := t.out.String()
	for _, kw := range []string{"Parameter"} {
		res = regexp.MustCompile(`\b`+kw+`\b`).ReplaceAllString(res, kw+"'")
	}
	return writeIfChanged(outPath, res)
}

func writeIfChanged(p, content string) error {
	old, err := os.ReadFile(p)
	if err == nil && string(old) == content {
		return nil
	}
	return os.WriteFile(p, []byte(content), 0o644)
}
