package main

// Gen_Globals.v: the inventory of package-level state and the lock discipline of the resolution cache.
//   gen_globals       : every package-level variable with the functions that assign it, take its address,
//                       or call a method on it / index-assign through it (a possible mutation)
//   gen_cache_methods : for every method of simpleCache the sequence of events of its body in source order:
//                       Lock / Unlock / RLock / RUnlock / read:store / write:store
//   gen_cache_passing : exported functions that hand a ResolutionCache to defaultSchemaLoader, and whether it
//                       went through cacheOrDefault first

import (
	"fmt"
	"go/ast"
	"go/token"
	"sort"
	"strings"
)

func genGlobals(repo, outPath string) error {
	fset, files, err := loadPackage(repo)
	if err != nil {
		return err
	}
	_ = fset
	globals := map[string]bool{}
	for _, f := range files {
		for _, d := range f.Decls {
			gd, ok := d.(*ast.GenDecl)
			if !ok || gd.Tok != token.VAR {
				continue
			}
			for _, s := range gd.Specs {
				vs := s.(*ast.ValueSpec)
				for _, n := range vs.Names {
					if n.Name != "_" {
						globals[n.Name] = true
					}
				}
			}
		}
	}
	writers := map[string]map[string]bool{}
	note := func(g, fn, how string) {
		if writers[g] == nil {
			writers[g] = map[string]bool{}
		}
		writers[g][how+":"+fn] = true
	}
	type ev struct{ s string }
	cacheEvents := map[string][]string{}
	var passing []string

	for _, f := range files {
		for _, d := range f.Decls {
			fd, ok := d.(*ast.FuncDecl)
			if !ok || fd.Body == nil {
				continue
			}
			fname := fd.Name.Name
			recv := ""
			recvVar := ""
			if fd.Recv != nil && len(fd.Recv.List) == 1 {
				recv = typeBaseName(fd.Recv.List[0].Type)
				if len(fd.Recv.List[0].Names) == 1 {
					recvVar = fd.Recv.List[0].Names[0].Name
				}
				fname = recv + "." + fname
			}
			// locals shadowing globals
			locals := map[string]bool{}
			for _, p := range fd.Type.Params.List {
				for _, n := range p.Names {
					locals[n.Name] = true
				}
			}
			ast.Inspect(fd.Body, func(n ast.Node) bool {
				switch n := n.(type) {
				case *ast.AssignStmt:
					for _, r := range n.Rhs {
						// another name for the value of a package-level variable
						if id, ok := r.(*ast.Ident); ok && globals[id.Name] && !locals[id.Name] {
							note(id.Name, fname, "aliased")
						}
					}
					for _, l := range n.Lhs {
						if n.Tok == token.DEFINE {
							if id, ok := l.(*ast.Ident); ok {
								locals[id.Name] = true
							}
							continue
						}
						switch l := l.(type) {
						case *ast.Ident:
							if globals[l.Name] && !locals[l.Name] {
								note(l.Name, fname, "assign")
							}
						case *ast.IndexExpr:
							if id := rootIdent(l.X); globals[id] && !locals[id] {
								note(id, fname, "index-assign")
							}
						case *ast.SelectorExpr:
							if id := rootIdent(l); globals[id] && !locals[id] {
								note(id, fname, "field-assign")
							}
						}
					}
				case *ast.ValueSpec:
					for _, v := range n.Values {
						if id, ok := v.(*ast.Ident); ok && globals[id.Name] && !locals[id.Name] {
							note(id.Name, fname, "aliased")
						}
					}
				case *ast.ReturnStmt:
					// the value of a package-level variable handed out to callers: whoever receives a pointer, map or slice
					// can write through it
					for _, r := range n.Results {
						if id, ok := r.(*ast.Ident); ok && globals[id.Name] && !locals[id.Name] {
							note(id.Name, fname, "returned")
						}
					}
				case *ast.UnaryExpr:
					if n.Op == token.AND {
						if id, ok := n.X.(*ast.Ident); ok && globals[id.Name] && !locals[id.Name] {
							note(id.Name, fname, "address")
						}
					}
				case *ast.CallExpr:
					if sel, ok := n.Fun.(*ast.SelectorExpr); ok {
						if id, ok := sel.X.(*ast.Ident); ok && globals[id.Name] && !locals[id.Name] {
							note(id.Name, fname, "method:"+sel.Sel.Name)
						}
					}
					for _, a := range n.Args {
						// handed to another function of the package (library calls such as fmt.Errorf("%w", ErrX) excepted:
						// a selector callee outside the package cannot keep what it is not given a pointer to... it can; but the
						// package's own variables passed there are error values and the logger)
						if id, ok := a.(*ast.Ident); ok && globals[id.Name] && !locals[id.Name] {
							if callee, ok := n.Fun.(*ast.Ident); ok {
								note(id.Name, fname, "passed:"+callee.Name)
							} else if sel, ok := n.Fun.(*ast.SelectorExpr); ok {
								if _, isPkg := sel.X.(*ast.Ident); !isPkg {
									note(id.Name, fname, "passed:"+sel.Sel.Name)
								} else if x := sel.X.(*ast.Ident); !strings.Contains("fmt errors", x.Name) {
									note(id.Name, fname, "passed:"+x.Name+"."+sel.Sel.Name)
								}
							}
						}
					}
				}
				return true
			})
			// lock discipline of simpleCache
			if recv == "simpleCache" {
				var evs []string
				ast.Inspect(fd.Body, func(n ast.Node) bool {
					switch n := n.(type) {
					case *ast.CallExpr:
						if sel, ok := n.Fun.(*ast.SelectorExpr); ok {
							if inner, ok := sel.X.(*ast.SelectorExpr); ok && rootIdent(inner) == recvVar && inner.Sel.Name == "lock" {
								evs = append(evs, sel.Sel.Name)
								return false
							}
						}
					case *ast.AssignStmt:
						for _, l := range n.Lhs {
							if ix, ok := l.(*ast.IndexExpr); ok {
								if s, ok := ix.X.(*ast.SelectorExpr); ok && rootIdent(s) == recvVar && s.Sel.Name == "store" {
									evs = append(evs, "write:store")
								}
							}
						}
						for _, r := range n.Rhs {
							ast.Inspect(r, func(m ast.Node) bool {
								if c, ok := m.(*ast.CallExpr); ok {
									if id, ok := c.Fun.(*ast.Ident); ok && id.Name == "len" && len(c.Args) == 1 {
										if s, ok := c.Args[0].(*ast.SelectorExpr); ok && rootIdent(s) == recvVar && s.Sel.Name == "store" {
											evs = append(evs, "len:store")
											return false
										}
									}
								}
								if s, ok := m.(*ast.SelectorExpr); ok && rootIdent(s) == recvVar && s.Sel.Name == "store" {
									evs = append(evs, "read:store")
								}
								return true
							})
						}
						return false
					case *ast.RangeStmt:
						if s, ok := n.X.(*ast.SelectorExpr); ok && rootIdent(s) == recvVar && s.Sel.Name == "store" {
							evs = append(evs, "read:store")
						}
					case *ast.DeferStmt:
						evs = append(evs, "defer")
					}
					return true
				})
				cacheEvents[fd.Name.Name] = evs
			}
			// how a cache reaches defaultSchemaLoader from an exported function
			if ast.IsExported(fd.Name.Name) && recv == "" {
				usesLoader, viaDefault, hasCacheParam := false, false, false
				for _, p := range fd.Type.Params.List {
					if typeBaseName(p.Type) == "ResolutionCache" {
						hasCacheParam = true
					}
				}
				ast.Inspect(fd.Body, func(n ast.Node) bool {
					if c, ok := n.(*ast.CallExpr); ok {
						if id, ok := c.Fun.(*ast.Ident); ok {
							if id.Name == "defaultSchemaLoader" {
								usesLoader = true
							}
							if id.Name == "cacheOrDefault" {
								viaDefault = true
							}
						}
					}
					return true
				})
				if usesLoader && hasCacheParam {
					passing = append(passing, fmt.Sprintf("(%s, %v)", coqStr(fd.Name.Name), viaDefault))
				}
			}
		}
	}
	var b strings.Builder
	b.WriteString("(* GENERATED by /verif/translator (globals) from /repo — do not edit. *)\n")
	b.WriteString("From Coq Require Import List String.\nImport ListNotations.\n\n")
	var gs []string
	for g := range globals {
		gs = append(gs, g)
	}
	sort.Strings(gs)
	b.WriteString("Definition gen_globals : list (string * list string) := [\n")
	for i, g := range gs {
		var ws []string
		for w := range writers[g] {
			ws = append(ws, w)
		}
		sort.Strings(ws)
		sep := ";"
		if i == len(gs)-1 {
			sep = ""
		}
		fmt.Fprintf(&b, "  (%s, %s)%s\n", coqStr(g), coqStrList(ws), sep)
	}
	b.WriteString("].\n\n")
	var ms []string
	for m := range cacheEvents {
		ms = append(ms, m)
	}
	sort.Strings(ms)
	b.WriteString("Definition gen_cache_methods : list (string * list string) := [\n")
	for i, m := range ms {
		sep := ";"
		if i == len(ms)-1 {
			sep = ""
		}
		fmt.Fprintf(&b, "  (%s, %s)%s\n", coqStr(m), coqStrList(cacheEvents[m]), sep)
	}
	b.WriteString("].\n\n")
	sort.Strings(passing)
	fmt.Fprintf(&b, "Definition gen_cache_passing : list (string * bool) := [%s].\n", strings.Join(passing, "; "))
	return writeIfChanged(outPath, b.String())
}
