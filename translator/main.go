// Command translator regenerates the source-derived parts of the Coq model from /repo.
package main

import (
	"fmt"
	"os"
)

func main() {
	if len(os.Args) < 4 {
		fmt.Fprintln(os.Stderr, "usage: translator <vals|tables|globals> <repo> <out.v>")
		os.Exit(2)
	}
	var err error
	switch os.Args[1] {
	case "vals":
		err = genVals(os.Args[2], os.Args[3])
	case "tables":
		err = genTables(os.Args[2], os.Args[3])
	case "globals":
		err = genGlobals(os.Args[2], os.Args[3])
	default:
		err = fmt.Errorf("unknown generator %s", os.Args[1])
	}
	if err != nil {
		fmt.Fprintln(os.Stderr, "translator:", err)
		os.Exit(1)
	}
}
