package main

// Gen_Tables.v: the data the codec model is parameterised by, regenerated from /repo on every run:
// struct field tables (Go name, JSON name, omitempty, type shape), named non-struct types, the
// parts each custom MarshalJSON concatenates / each UnmarshalJSON fills / each JSONLookup consults,
// the set of types with custom codec methods, and the keyword sets of the two embedded meta-schemas.

import (
	"encoding/json"
	"fmt"
	"go/ast"
	"go/token"
	"os"
	"path/filepath"
	"reflect"
	"sort"
	"strings"
)

func coqStr(s string) string { return "\"" + strings.ReplaceAll(s, "\"", "\"\"") + "\"%string" }

func coqStrList(l []string) string {
	q := make([]string, len(l))
	for i, s := range l {
		q[i] = coqStr(s)
	}
	return "[" + strings.Join(q, "; ") + "]"
}

// ftyOf maps a Go type expression to the Coq type descriptor of Codec/Types.v.
func ftyOf(e ast.Expr) string {
	switch e := e.(type) {
	case *ast.Ident:
		switch e.Name {
		case "string":
			return "TStr"
		case "bool":
			return "TBool"
		case "float64", "float32":
			return "TF64"
		case "int", "int64", "int32", "uint", "uint64":
			return "TInt"
		}
		return "(TNamed " + coqStr(e.Name) + ")"
	case *ast.StarExpr:
		return "(TPtr " + ftyOf(e.X) + ")"
	case *ast.ArrayType:
		if e.Len == nil {
			return "(TSlice " + ftyOf(e.Elt) + ")"
		}
	case *ast.MapType:
		if k, ok := e.Key.(*ast.Ident); ok && k.Name == "int" {
			return "(TIntMap " + ftyOf(e.Value) + ")"
		}
		return "(TMap " + ftyOf(e.Value) + ")"
	case *ast.InterfaceType:
		return "TAny"
	case *ast.SelectorExpr:
		return "(TNamed " + coqStr(typeBaseName(e)) + ")"
	case *ast.FuncType:
		return "TFunc"
	}
	return "TUnsupported"
}

func lastSel(e ast.Expr) string {
	switch e := e.(type) {
	case *ast.SelectorExpr:
		return e.Sel.Name
	case *ast.UnaryExpr:
		return lastSel(e.X)
	case *ast.ParenExpr:
		return lastSel(e.X)
	case *ast.Ident:
		return e.Name
	}
	return "?"
}

// marshalParts: the selector names marshalled into the arguments of the final swag.ConcatJSON call.
func marshalParts(d *ast.FuncDecl) ([]string, bool) {
	defs := map[string][]string{} // identifier -> parts assigned to it (several = conditional)
	var concat *ast.CallExpr
	ast.Inspect(d.Body, func(n ast.Node) bool {
		switch n := n.(type) {
		case *ast.AssignStmt:
			if len(n.Rhs) == 1 && len(n.Lhs) >= 1 {
				id, ok := n.Lhs[0].(*ast.Ident)
				if !ok {
					return true
				}
				if call, ok := n.Rhs[0].(*ast.CallExpr); ok {
					if sel, ok := call.Fun.(*ast.SelectorExpr); ok {
						if pk, ok := sel.X.(*ast.Ident); ok && pk.Name == "json" && sel.Sel.Name == "Marshal" && len(call.Args) == 1 {
							if _, isSel := call.Args[0].(*ast.SelectorExpr); isSel {
								defs[id.Name] = append(defs[id.Name], lastSel(call.Args[0]))
							} else {
								defs[id.Name] = append(defs[id.Name], "?")
							}
						} else if sel.Sel.Name == "MarshalJSON" {
							defs[id.Name] = append(defs[id.Name], lastSel(sel.X))
						} else if pk, ok := sel.X.(*ast.Ident); ok && pk.Name == "swag" && sel.Sel.Name == "ConcatJSON" {
							concat = call
						}
					}
				} else if other, ok := n.Rhs[0].(*ast.Ident); ok {
					defs[id.Name] = append(defs[id.Name], defs[other.Name]...)
				}
			}
		case *ast.ReturnStmt:
			if len(n.Results) >= 1 {
				if call, ok := n.Results[0].(*ast.CallExpr); ok {
					if sel, ok := call.Fun.(*ast.SelectorExpr); ok {
						if pk, ok := sel.X.(*ast.Ident); ok && pk.Name == "swag" && sel.Sel.Name == "ConcatJSON" {
							concat = call
						}
					}
				}
			}
		}
		return true
	})
	if concat == nil {
		return nil, false
	}
	var parts []string
	for _, a := range concat.Args {
		id, ok := a.(*ast.Ident)
		if !ok {
			parts = append(parts, "?")
			continue
		}
		ps := defs[id.Name]
		switch len(ps) {
		case 0:
			parts = append(parts, "?")
		case 1:
			parts = append(parts, ps[0])
		default:
			parts = append(parts, "?"+strings.Join(ps, "|"))
		}
	}
	return parts, true
}

// unmarshalParts: the selector names json.Unmarshal(data, &x.Part) fills, in order.
func unmarshalParts(d *ast.FuncDecl) []string {
	var parts []string
	ast.Inspect(d.Body, func(n ast.Node) bool {
		call, ok := n.(*ast.CallExpr)
		if !ok {
			return true
		}
		sel, ok := call.Fun.(*ast.SelectorExpr)
		if !ok {
			return true
		}
		if pk, ok := sel.X.(*ast.Ident); ok && pk.Name == "json" && sel.Sel.Name == "Unmarshal" && len(call.Args) == 2 {
			parts = append(parts, lastSel(call.Args[1]))
		}
		return true
	})
	return parts
}

// lookupParts: what JSONLookup consults, in source order: "Extensions" / "ExtraProps" (map index on a
// field), "lit:<token>" (comparison of token with a literal) and the parts handed to GetForToken.
func lookupParts(d *ast.FuncDecl) []string {
	var parts []string
	ast.Inspect(d.Body, func(n ast.Node) bool {
		switch n := n.(type) {
		case *ast.IndexExpr:
			parts = append(parts, "map:"+lastSel(n.X))
		case *ast.BinaryExpr:
			if n.Op == token.EQL {
				if bl, ok := n.Y.(*ast.BasicLit); ok && bl.Kind == token.STRING {
					parts = append(parts, "lit:"+strings.Trim(bl.Value, "\""))
				} else if id, ok := n.Y.(*ast.Ident); ok && id.Name == "jsonRef" {
					parts = append(parts, "lit:$ref")
				}
			}
		case *ast.CallExpr:
			if sel, ok := n.Fun.(*ast.SelectorExpr); ok && sel.Sel.Name == "GetForToken" && len(n.Args) == 2 {
				parts = append(parts, "part:"+lastSel(n.Args[0]))
			}
			if sel, ok := n.Fun.(*ast.SelectorExpr); ok && sel.Sel.Name == "Atoi" {
				parts = append(parts, "atoi")
			}
		}
		return true
	})
	return parts
}

func schemaKeywords(path string) (map[string][]string, error) {
	b, err := os.ReadFile(path)
	if err != nil {
		return nil, err
	}
	var doc map[string]interface{}
	if err := json.Unmarshal(b, &doc); err != nil {
		return nil, err
	}
	out := map[string][]string{}
	props := func(m map[string]interface{}) []string {
		var ks []string
		if p, ok := m["properties"].(map[string]interface{}); ok {
			for k := range p {
				ks = append(ks, k)
			}
		}
		sort.Strings(ks)
		return ks
	}
	out["#"] = props(doc)
	if defs, ok := doc["definitions"].(map[string]interface{}); ok {
		for name, d := range defs {
			if m, ok := d.(map[string]interface{}); ok {
				out[name] = props(m)
				// does the definition allow ^x- vendor extensions?
				if pp, ok := m["patternProperties"].(map[string]interface{}); ok {
					if _, ok := pp["^x-"]; ok {
						out[name] = append(out[name], "^x-")
					}
				}
			}
		}
	}
	return out, nil
}

func genTables(repo, outPath string) error {
	fset, files, err := loadPackage(repo)
	if err != nil {
		return err
	}
	t := newValsTr(fset, files)
	var b strings.Builder
	b.WriteString("(* GENERATED by /verif/translator (tables) from /repo — do not edit. *)\n")
	b.WriteString("From Coq Require Import List String.\nFrom Spec Require Import Codec.Types.\nImport ListNotations.\n\n")

	var snames []string
	for n := range t.structs {
		snames = append(snames, n)
	}
	sort.Strings(snames)
	// struct tables need the tags: re-read them from the AST
	tags := map[string]map[string]string{}
	for _, f := range files {
		for _, d := range f.Decls {
			gd, ok := d.(*ast.GenDecl)
			if !ok || gd.Tok != token.TYPE {
				continue
			}
			for _, s := range gd.Specs {
				ts := s.(*ast.TypeSpec)
				st, ok := ts.Type.(*ast.StructType)
				if !ok {
					continue
				}
				tags[ts.Name.Name] = map[string]string{}
				for _, fl := range st.Fields.List {
					tag := ""
					if fl.Tag != nil {
						tag = reflect.StructTag(strings.Trim(fl.Tag.Value, "`")).Get("json")
					}
					if len(fl.Names) == 0 {
						tags[ts.Name.Name][typeBaseName(fl.Type)] = tag
					}
					for _, n := range fl.Names {
						tags[ts.Name.Name][n.Name] = tag
					}
				}
			}
		}
	}
	b.WriteString("Definition gen_structs : list (string * list field) := [\n")
	for i, n := range snames {
		si := t.structs[n]
		var fs []string
		for _, f := range si.Fields {
			if !ast.IsExported(f.Name) {
				continue
			}
			tag := tags[n][f.Name]
			jname, omit, skip := f.Name, false, false
			if tag == "-" {
				skip = true
			} else if tag != "" {
				parts := strings.Split(tag, ",")
				if parts[0] != "" {
					jname = parts[0]
				}
				for _, o := range parts[1:] {
					if o == "omitempty" {
						omit = true
					}
				}
			}
			fs = append(fs, fmt.Sprintf("mkField %s %s %v %v %v %s", coqStr(f.Name), coqStr(jname), omit, skip, f.Embedded && tag == "", ftyOf(f.Type)))
		}
		sep := ";"
		if i == len(snames)-1 {
			sep = ""
		}
		fmt.Fprintf(&b, "  (%s, [%s])%s\n", coqStr(n), strings.Join(fs, ";\n      "), sep)
	}
	b.WriteString("].\n\n")

	var anames []string
	for n := range t.named {
		anames = append(anames, n)
	}
	sort.Strings(anames)
	b.WriteString("Definition gen_aliases : list (string * fty) := [\n")
	first := true
	for _, n := range anames {
		ty := ftyOf(t.named[n])
		if ty == "TUnsupported" || ty == "TFunc" {
			continue
		}
		if !first {
			b.WriteString(";\n")
		}
		first = false
		fmt.Fprintf(&b, "  (%s, %s)", coqStr(n), ty)
	}
	b.WriteString("].\n\n")

	type kv2 struct {
		k string
		v []string
	}
	var mars, unmars, looks []kv2
	var customM, customU []string
	var mkeys []string
	for k := range t.methods {
		mkeys = append(mkeys, k)
	}
	sort.Strings(mkeys)
	for _, k := range mkeys {
		m := t.methods[k]
		switch m.Decl.Name.Name {
		case "MarshalJSON":
			customM = append(customM, m.Recv)
			if ps, ok := marshalParts(m.Decl); ok {
				mars = append(mars, kv2{m.Recv, ps})
			}
		case "UnmarshalJSON":
			customU = append(customU, m.Recv)
			unmars = append(unmars, kv2{m.Recv, unmarshalParts(m.Decl)})
		case "JSONLookup":
			looks = append(looks, kv2{m.Recv, lookupParts(m.Decl)})
		}
	}
	emit := func(name string, l []kv2) {
		fmt.Fprintf(&b, "Definition %s : list (string * list string) := [\n", name)
		for i, e := range l {
			sep := ";"
			if i == len(l)-1 {
				sep = ""
			}
			fmt.Fprintf(&b, "  (%s, %s)%s\n", coqStr(e.k), coqStrList(e.v), sep)
		}
		b.WriteString("].\n\n")
	}
	// alternative renderings: a MarshalJSON that encodes a literal of an anonymous struct type.  For each one, the members the
	// type declares (Go name, JSON name) and the Go names the literal fills.
	b.WriteString("Definition gen_inline_structs : list (string * (list (string * string) * list string)) := [\n")
	firstInline := true
	for _, k := range mkeys {
		m := t.methods[k]
		if m.Decl.Name.Name != "MarshalJSON" || m.Decl.Body == nil {
			continue
		}
		ast.Inspect(m.Decl.Body, func(n ast.Node) bool {
			cl, ok := n.(*ast.CompositeLit)
			if !ok {
				return true
			}
			st, ok := cl.Type.(*ast.StructType)
			if !ok {
				return true
			}
			var decl, filled []string
			for _, fl := range st.Fields.List {
				tag := ""
				if fl.Tag != nil {
					tag = reflect.StructTag(strings.Trim(fl.Tag.Value, "`")).Get("json")
				}
				for _, nm := range fl.Names {
					jn := nm.Name
					if p := strings.Split(tag, ",")[0]; p != "" {
						jn = p
					}
					decl = append(decl, fmt.Sprintf("(%s, %s)", coqStr(nm.Name), coqStr(jn)))
				}
			}
			for _, el := range cl.Elts {
				if kv, ok := el.(*ast.KeyValueExpr); ok {
					if id, ok := kv.Key.(*ast.Ident); ok {
						filled = append(filled, id.Name)
					}
				}
			}
			if !firstInline {
				b.WriteString(";\n")
			}
			firstInline = false
			fmt.Fprintf(&b, "  (%s, ([%s], %s))", coqStr(m.Recv), strings.Join(decl, "; "), coqStrList(filled))
			return true
		})
	}
	b.WriteString("].\n\n")
	emit("gen_marshal_parts", mars)
	emit("gen_unmarshal_parts", unmars)
	emit("gen_lookup_parts", looks)
	fmt.Fprintf(&b, "Definition gen_custom_marshal : list string := %s.\n", coqStrList(customM))
	fmt.Fprintf(&b, "Definition gen_custom_unmarshal : list string := %s.\n\n", coqStrList(customU))

	for _, sf := range []struct{ name, path string }{
		{"gen_swagger_schema_keywords", filepath.Join(repo, "schemas", "v2", "schema.json")},
		{"gen_draft4_keywords", filepath.Join(repo, "schemas", "jsonschema-draft-04.json")},
	} {
		kws, err := schemaKeywords(sf.path)
		if err != nil {
			return err
		}
		var names []string
		for n := range kws {
			names = append(names, n)
		}
		sort.Strings(names)
		var l []kv2
		for _, n := range names {
			l = append(l, kv2{n, kws[n]})
		}
		emit(sf.name, l)
	}
	return writeIfChanged(outPath, b.String())
}
